#!/bin/bash
# regseeds.sh: register every confirmed seeded change as a self-test mutant (mutants/<prop>/seeded-<id>.patch).
cd "$(dirname "$0")/.."
for d in seeded/C*-*/; do id=$(basename $d); p=${id%-*}
  f=mutants/$p/seeded-$id.patch
  [ -f "$f" ] && continue
  { echo "# mutant: seeded-$id (independently seeded by a sub-agent; see /verif/seeded/$id/meta.json)"; echo "# rule:"; echo "# property: $p"; cat $d/patch.diff; } > $f
  echo "registered $f"
done
