#!/usr/bin/env python3
"""Regenerates /verif/MANIFEST.json from the table below and validates it."""
import json, os, sys

BASELINE = json.load(open('/root/.vp/BASELINE.json'))

# id -> (technique, level text, level note, design ref)
CLAIMED = {}
def claim(pid, technique, text, note, ref):
    CLAIMED[pid] = dict(technique=technique, text=text, note=note, ref=ref)

NA = {}

exec(open(os.path.join(os.path.dirname(__file__), 'claims.py')).read())

props = [json.loads(l)['id'] for l in open('/verif/properties.jsonl')]
checks = []
na = []
for pid in props:
    if pid in CLAIMED:
        c = CLAIMED[pid]
        checks.append({
            "property_id": pid,
            "quick_cmd": f"./check.sh {pid} quick",
            "thorough_cmd": f"./check.sh {pid} thorough",
            "evidence_file": f"/verif/evidence/{pid}.json",
            "replay_cmd_template": "bin/f3lint -prop " + pid + " -only \"$(jq -r '.obligation.rule+\"|\"+.obligation.construct' {path})\"",
            "engine": "f3lint",
            "level_claimed": {"category": "other", "text": c['text'], "design_ref": c['ref']},
            "level_note": c['note'],
            "technique": c['technique'],
        })
    else:
        na.append({"property_id": pid, "reason": NA.get(pid, "static check for this property is not built yet in this revision; no claim is made")})

m = {
 "version": 1,
 "setup_cmd": "./setup.sh",
 "hooks": {
   "guard": "verif",
   "enable": "none needed: static analysis reads /repo's source; no instrumentation is compiled in",
   "baseline_off_cmd": BASELINE['cmd'],
   "source_commits": [],
   "add_only": True,
 },
 "engines": [{"name": "f3lint", "path": "/verif/checker", "serves_properties": sorted(CLAIMED), "kind_free_text": "repository-specific static analyser over go/types + go/ssa: guard dominance by failure-injection SCCP, call-graph ownership rules, decision-table extraction, linear-form comparison, provenance slices, codec shape rules; thorough tier adds _test packages and a mutant self-test"}],
 "checks": checks,
 "not_applicable": na,
 "notes": "All claims are at level 'other': each check decides structural necessary conditions of its property on every path / call site / table row of /repo's current source (see DESIGN.md §1), not the behaviour itself. Genuine defects found and repaired are listed in known_findings.json (fixed: entries).",
}
json.dump(m, open('/verif/MANIFEST.json', 'w'), indent=1)
try:
    import jsonschema
    jsonschema.validate(m, json.load(open('/root/.vp/MANIFEST.schema.json')))
    print("MANIFEST valid;", len(checks), "checks,", len(na), "not applicable")
except ImportError:
    print("jsonschema not available; wrote manifest")
