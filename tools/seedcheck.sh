#!/bin/bash
# seedcheck.sh <patch.diff> <prop> [more props...] : run the quick checks on a scratch copy of /repo with the patch applied.
set -u
PATCH="$(realpath "$1")"; shift
S=$(mktemp -d /tmp/seedcheck-XXXX)
rsync -a --exclude .git /repo/ "$S/"
if ! (cd "$S" && patch -p1 -s < "$PATCH"); then echo "PATCH DOES NOT APPLY"; rm -rf "$S"; exit 3; fi
for P in "$@"; do
  /verif/bin/f3lint -prop "$P" -tier quick -repo "$S" -selftest-child 2>&1 | grep -E "CHILD-REPORT|panic|load" | sed "s|$S/||g" | head -12
  echo "--- $P exit=${PIPESTATUS[0]}"
done
rm -rf "$S"
