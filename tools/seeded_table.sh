#!/bin/bash
# Runs the quick check of each seeded change's property on a scratch copy with the change applied;
# writes /verif/seeded/RESULTS.md (which rule reports it).
cd "$(dirname "$0")/.."
out=seeded/RESULTS.md
echo "| seeded change | property | needs to manifest | reported by (first rules) |" > $out
echo "|---|---|---|---|" >> $out
for d in seeded/*/; do
  id=$(basename $d); p=$(jq -r .property $d/meta.json)
  need=$(jq -r '.needs_to_manifest' $d/meta.json | tr '\n|' '  ' | cut -c1-160)
  rep=$(tools/seedcheck.sh $d/patch.diff $p | grep CHILD-REPORT | cut -f2,4 | sed 's/\t/: /' | head -2 | tr '\n' ';' | cut -c1-260)
  [ -z "$rep" ] && rep="**NOT DETECTED**"
  echo "| $id | $p | $need | $rep |" >> $out
done
cat $out | grep -c "NOT DETECTED"
