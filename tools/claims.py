claim("C10", "static analysis: write-order dominance + failure-injection SCCP + datastore provenance on certstore",
  "Decides, for every CFG path of certstore Put/CreateStore/OpenOrCreateStore/DeleteAll/maybeContinueDelete/open, the write-order, error-guarding, tombstone-protocol and resume-provenance rules that crash atomicity needs (C10.R1–R6). These are necessary conditions visible in the code shape; the behaviour after a real crash is not executed or modelled.",
  "Assumes a single datastore write is atomic/durable (AS1); trusts go/types, go/ssa and the rule tables in checker/c10.go.",
  "DESIGN.md §4 C10")

claim("C16", "static analysis: linear-form range arithmetic + guard dominance (SCCP) on certexchange server/client/poller",
  "Decides for every path and every integer input the server's range rules as linear forms (start = First, count ≤ min(Limit,256), end ≤ Pending−1, no unsigned wrap), the header/power-table serving guards, the client's sequence/limit/decode guards before delivery, and the poller's validate-then-store and advance-to-validated-output rules (C16.R1–R4). Structural necessary conditions; byte-for-byte equality of served certificates is not decided.",
  "Linear forms ignore integer width except for the separate no-wrap obligations; a field read twice without an intervening store is taken to be the same value; trusts go/types, go/ssa, checker/lin.go and checker/c16.go.",
  "DESIGN.md §4 C16")

claim("C18", "static analysis: cache-role provenance, key/value binding, admission guard dominance (SCCP), lock and loop-shape rules on chainexchange",
  "Decides on every path of chainexchange/pubsub.go which per-instance LRU each lookup/insertion/placeholder/promotion touches (by provenance from its getter), that discovered insertions depend on a WANTED miss, that every insertion binds key = Key(chain stored), that ValidationAccept is unreachable when any admission check fails, that pruning deletes only instances below the bound in both maps, that the instance maps are touched only under the mutex, and that prefix loops run the full range (C18.R1–R6). Necessary structural conditions; LRU retention under floods is runtime behaviour and is not decided.",
  "Trusts hashicorp/golang-lru method contracts, go/types, go/ssa and checker/c18.go.",
  "DESIGN.md §4 C18")

claim("C19", "static analysis: guard dominance (SCCP) + argument provenance on the sim oracle; linear-form sibling comparison certchain vs node look-back",
  "Decides that sim validateDecision can return nil only past every check with the quorum threshold's operands taken from this instance's power table and the aggregate verified over the decision's own payload; that invalid decisions are always recorded, surfaced by Err() and acted on by Run; that consensus comparison covers every non-excluded participant; and that certchain's committee look-back equals the node's as linear forms (C19.R1–R3). Structural necessary conditions; whether simulations exercise these paths is not decided.",
  "AS2 cryptography sound; AS5 certchain.certificates[k] is instance Initial+k; trusts go/types, go/ssa, checker/c19.go.",
  "DESIGN.md §4 C19")

claim("C20", "static analysis: SSA value-identity ordering, min/max linear-form entailment, SCCP decision table on the polling subscriber/predictor",
  "Decides that every return of Subscriber.poll yields NextInstance(after) − NextInstance(before) in that order, that the predictor is fed only that progress, that the timer extension is ≤ delay/2 and ≤ the request time, that predictor.update's full decision table over (back-off, progress 0/1/2/≥3) equals the specification with clamps, and that CatchUp's progress is latest+1 − NextInstance(before) (C20.R1–R4). Structural necessary conditions; convergence of the cadence over time is dynamics and is not decided.",
  "Trusts go/types, go/ssa, checker/lin.go, checker/sccp.go and the table in checker/c20.go.",
  "DESIGN.md §4 C20")

claim("C05", "static analysis: guard dominance + full decision-table extraction by SCCP, SSA map-literal table comparison, cache-key provenance on the validator",
  "Decides on every path of gpbft/validator.go that acceptance and cache insertion are unreachable when any check fails; that the complete phase × round × bottom × partial × ticket × justification decision table (512 rows) and the relevance table (240 rows) equal the protocol tables; that the justification expectation table equals the spec and each of its guards (incl. round equality in both directions) gates aggregate acceptance; that the aggregate is checked against a strong quorum of the same committee over the payload with the expected key; and history independence: cache keys cover the whole message / the justification plus the very key verified, namespaces distinct, lookups read-only, progress never read under cached validation (C05.R1–R8). Structural necessary conditions; cryptographic soundness and races are not decided.",
  "AS2 cryptography sound; trusts go/types, go/ssa, checker/sccp.go and the spec tables in checker/c05.go.",
  "DESIGN.md §4 C05")

claim("C08", "static analysis: linear normal forms with ceil/floor lemmas over the quorum predicates; dataflow shape of scaling; call-site provenance",
  "Decides for all integer inputs (no enumeration) that IsStrongQuorum normalises to 3·part − 2·whole ≥ 0, hasWeakQuorum implies 3·part − whole ≥ 1, the division helper is a ceiling division by shape, CouldReachStrongQuorumFor is IsStrongQuorum(min(support + T − S [+ ⌊T/3⌋], T), T); that every call site takes part and whole from one power table; that no second threshold exists; and that scalePower is the arbitrary-precision ⌊65535·p/T⌋ under T ≥ p with all users passing the table's own total (C08.R1–R4).",
  "Trusts the integer lemmas listed in the evidence, AS3 (Σ⌊M·pᵢ/Σp⌋ ≤ M), go/types, go/ssa, checker/lin.go and checker/c08.go.",
  "DESIGN.md §4 C08")

claim("C09", "static analysis: guard dominance (SCCP) on every path of Put, field-writer ownership, lock/drain discipline, linear-form checkpoint agreement on certstore",
  "Decides that in Put no datastore write, in-memory update or notification is reachable unless every admission check (first instance, non-empty, well-formed, exact successor, delta applies, CID equals the committed table, non-empty table) has passed on that path; that a stale put writes nothing and returns nil; who writes the in-memory head and with what; that the pointer is the last write; capacity-1 drain-then-send notification under the exclusive lock; checkpoint writer/reader agreement and GetPowerTable's range as linear forms; shared key constructors and ascending range reads (C09.R1–R7). Structural necessary conditions; model equivalence over histories is not decided.",
  "AS1 datastore atomic/non-failing; trusts go/types, go/ssa, checker/c09.go.",
  "DESIGN.md §4 C09")

claim("C17", "static analysis: guard dominance (SCCP, both directions of each equality), write ordering, export dataflow shape on certstore/snapshot.go",
  "Decides that the importer's latest-pointer write and nil return are unreachable when any check fails (header, manifest, per-block decode, contiguity and surplus in both directions, delta, checkpoint and final CID, non-empty, last == header latest), that the pointer is written once and last with certificates stored under their own key, that export sends every byte through the hashing writer with a header bound to (1, first, requested latest, table at first) and the range first…requested latest of raw stored bytes, that the importer's checkpoint writer agrees with the store's reader, and that block framing is symmetric (C17.R1–R5). Structural necessary conditions; observational identity of the imported store is not decided.",
  "AS1 datastore atomic/non-failing; trusts go/types, go/ssa, checker/c17.go.",
  "DESIGN.md §4 C17")

claim("C11", "static analysis: call-order dominance, error guard dominance (SCCP), exit-by-exit return provenance, open-flag constants, allocation placement on the WAL",
  "Decides that Append acknowledges only after rotate-check ≺ marshal ≺ write ≺ fsync with every error guarding the next step and the epoch bookkeeping after both the rotation decision and the fsync; that the reader appends only successfully decoded records into a per-iteration fresh variable and that EVERY exit after a successful open returns the accumulated prefix with the running max epoch over all decoded entries; that write-mode opens are exclusive-create under a fresh name and only rotate installs the active file; that Purge removes only closed files whose max epoch is strictly below the bound and keeps the others listed; flush order; lock discipline (C11.R1–R6). Structural necessary conditions; torn-record decoding and filesystem semantics are not decided.",
  "AS1 fsync durability; trusts go/types, go/ssa (generic instantiation for walEntry), checker/c11.go.",
  "DESIGN.md §4 C11")

claim("C12", "static analysis: guard/ordering dominance on the broadcast paths, who-may-publish, SCCP decision table of the equivocation filter, wrap-aware linear form of the purge bound",
  "Decides that in BroadcastMessage/rebroadcastMessage nothing leaves the node when the filter refuses, filter ≺ WAL append ≺ publish, and the appended message is the published one; that the consensus topic has no other publisher; that start replays every WAL entry into the filter before the runner exists; the filter's must-rows (past instance refused without state change, conflicting local signature refused, stored signatures never overwritten, newer instance resets before lookup, slot = sender/round/phase); that WAL entries carry the whole message with epoch = instance and are distinct objects on read-back; and that the purge bound instance − 5 cannot wrap (C12.R1–R7). Structural necessary conditions; delivery and storage faults are not decided.",
  "AS1 WAL durability (C11); trusts go/types, go/ssa, checker/c12.go.",
  "DESIGN.md §4 C12")

claim("C04", "static analysis: guard dominance (SCCP) with both directions of each equality, loop-carried state provenance via SSA phis, struct-literal payload comparison, comparator decision table on certs",
  "Decides that the per-certificate advance in ValidateFinalityCertificates is unreachable when any check fails, that the loop-carried base/table/chain have the right provenance (base := head of this certificate's chain, signature verified against the table in force), that every error return reports the valid prefix, that the signature check rejects out-of-range and zero-power signers, tests a strong quorum of the same table and verifies the aggregate over exactly the DECIDE payload, that delta application rejects each malformed class (incl. duplicate ids) before touching a fresh map, that MakePowerTableDiff sorts by participant and emits no zero delta, and the canonical order table (C04.R1–R7). Structural necessary conditions; apply(make(a,b)) = b as an identity over all values is not decided.",
  "AS2 cryptography sound; trusts go/types, go/ssa, checker/c04.go.",
  "DESIGN.md §4 C04")

claim("C13", "static analysis: sibling-table agreement (SSA map literals + SCCP inference table), guard dominance on FullyValidateMessage, strip/complete dataflow, shared validator cache-key rules",
  "Decides that the three copies of the justification table (validator, full validator, pmsg inference) agree with the specification and each other, that FullyValidateMessage's accept is unreachable on a malformed chain, key/chain mismatch, irrelevance, zero-key violations or a justification for a different value/phase, that stripping replaces exactly what completion restores on copies, that completion binds by (instance, announced key) and the host routes completed/buffered messages through one-shot/full validation, that MarshalForSigning delegates with Value.Key(), plus the partial-path validator rules shared with C05 (cache keys include the announced key / verified key) (C13.R1–R9). Structural necessary conditions; extensional equality of the two paths on all inputs is not decided.",
  "AS2 signatures sound; trusts go/types, go/ssa, checker/c13.go and checker/c05.go.",
  "DESIGN.md §4 C13")

claim("C01", "static analysis: guard dominance + who-may-call + SCCP decision tables (PREPARE exit, CONVERGE filter) on gpbft; shared quorum normal form and validator rules",
  "Decides structural necessary conditions of agreement on every path/call site/table row: one vote per sender per tally; decision only from a strong non-bottom COMMIT quorum in its round or a validated DECIDE, termination only from a strong DECIDE quorum; the complete PREPARE-exit table and COMMIT justification selection (no COMMIT for a value without PREPARE evidence); the CONVERGE filter's table; messages checked (instance, supplemental data, base) before any tally is touched and only validator-issued tokens reach the state machine; exact ⌈2/3⌉ threshold with operands of one table; validator cache/justification rules (C01.R1–R7). Agreement itself over all schedules and adversaries is NOT decided.",
  "AS2 signatures sound; trusts go/types, go/ssa, checker/sccp.go, spec tables in checker/gpbft_rules*.go.",
  "DESIGN.md §4 C01")
claim("C02", "static analysis: guard dominance, field-writer/provenance rules, CONVERGE filter table on gpbft",
  "Decides that foreign-instance/supplement/base messages never touch a tally, who writes the proposal and from which sources, that the candidate set grows only through QUALITY quorums, the filter, COMMIT sways and PREPARE-justified skips, the CONVERGE filter's table, that bottom is never decided, and that the host chain is non-empty, truncated and validated before an instance exists (C02.R1–R6). Necessary structural conditions; 'prefix of an honest input' over executions is not decided.",
  "AS2 signatures sound; trusts go/types, go/ssa, checker/gpbft_rules*.go.",
  "DESIGN.md §4 C02")
claim("C03", "static analysis: argument provenance at every buildJustification site, struct-literal field binding, guard dominance on certificate construction and storage",
  "Decides that each justification aggregates the strong quorum of the tally of the claimed phase/round for the claimed value's key, that DECIDE is round 0, the justification's field bindings and that none is produced when aggregation fails, the minimal-sorted-prefix shape of FindStrongQuorumFor, that the host validates the certificate against its own committee table before storing it, NewFinalityCertificate's guards and field copies, and the shared cache rules that keep forged messages out of the DECIDE tally (C03.R1–R7). Necessary structural conditions; that the aggregate verifies is cryptography.",
  "AS2 signatures sound; trusts go/types, go/ssa, checker/gpbft_rules2.go.",
  "DESIGN.md §4 C03")
claim("C06", "static analysis: must-pass-through on the spliced CFG under SCCP case injection (alarm re-armed on every path of tryRebroadcast, justification recorded on every path after a tally, DECIDE skip), dominance (phase entry arms its alarm, queued messages delivered before the instance start completes), type agreement between the errors.As target and the validation sentinels",
  "Decides structural conditions that are necessary for termination under the property's own assumptions — breaking any of them yields a schedule inside the quantifier on which an honest participant never decides: a pending alarm on every path (phase entries arm and record the phase alarm, the alarm helper sets the time it returns, tryRebroadcast re-arms on every path once its timeout elapsed and arms-or-resets in its first-time case, tryDecide keeps rebroadcasting without a quorum); justifications carried by PREPARE/non-bottom COMMIT messages are recorded whenever the vote is tallied; a DECIDE message moves any earlier phase to DECIDE and the current phase is re-tried after every tally; a late starter's queued messages are delivered before the start completes and only validation errors (matched by their concrete type) are skipped (C06.R1–R4). Termination itself — a liveness property over schedules and time, and the round bounds — is NOT decided.",
  "AS4 DECIDE messages have round 0; trusts go/types, go/ssa, checker/sccp.go, checker/c06.go.",
  "DESIGN.md §4 C06")
claim("C07", "static analysis: phase-writer ownership and predecessor guards, ordering dominance per transition, SCCP decision tables (PREPARE exit 256 rows, COMMIT handling 512 rows), loop-shape rule, panic containment",
  "Decides that only the seven transition functions move the phase (each to its own constant, from its predecessor), rounds only increase, each transition stores the phase, notifies progress and broadcasts exactly once its own phase at the right round and arms its alarm; emitted shapes; zero-power participants emit nothing; round-0 PREPARE value provenance; the PREPARE-exit and COMMIT-handling tables equal the specification; every quorum-backed prefix becomes a candidate (full-range loop); sways need PREPARE proof; exported entry points recover panics (C07.R1–R9). Necessary structural conditions; one-message-per-slot across re-entries is enforced at run time (C12).",
  "AS4 DECIDE messages have round 0; trusts go/types, go/ssa, checker/sccp.go, spec tables in checker/gpbft_rules2.go.",
  "DESIGN.md §4 C07")

claim("C15", "static analysis: linear forms and provenance on proposal construction, guard dominance on the chain walk, call-graph effect rule on GetCommittee",
  "Decides that the proposal's base is the head finalized by certificate instance−1 (bootstrap tipset at BootstrapEpoch−Finality first), that the suffix walk collects only the head and parents, ends only on key equality with the base and returns an empty suffix on divergence, the length bound min(ChainMaxLen, ChainProposedLength) and shortening-only trims, that each tipset carries the CID of EC's table for its own key and the supplemental data commits to GetCommittee(instance+1), the committee look-back rule as linear forms (threshold, certificate index, no wrap), that GetCommittee touches only finalized history on the EC backend, and the participant-side truncation/validation (C15.R1–R7). Necessary structural conditions; agreement with an EC-tree model on all trees is not decided.",
  "Trusts go/types, go/ssa, checker/lin.go, checker/c15.go.",
  "DESIGN.md §4 C15")

claim("C14", "static analysis: ordered write-sequence extraction for signed bytes, sibling key computations, generated-codec shape (field order/count, bounded header-sized allocations by SCCP), codec reset and pooled-buffer lifetime",
  "Decides the exact ordered item sequence written into the signed bytes of payloads, tipsets and VRF inputs (every field present, fixed-width integers, fenced variable-length parts, distinct domain tags); that the three chain-key computations hash every tipset's signing bytes in order with prefix i ↔ batch[i]; for each of the generated codecs that fields written = fields read = declaration order with the header count, every header-sized allocation is unreachable without an upper-bound check and each maxlen tag is enforced; that the ECChain codec resets its receiver (and cached key); and the zstd caps and pooled-buffer lifetime (C14.R1–R6). Necessary structural conditions; round-trip equality on all values and third-party decoder robustness are not decided.",
  "Trusts cbor-gen helper contracts, go/types, go/ssa, checker/c14.go.",
  "DESIGN.md §4 C14")

# ---- additions after the second and third independent seeding rounds (DESIGN.md §8) ----
ADD = {
 "C01": "Also decided (shared rule groups): structural equality predicates used by the receive guards cover every field (TipSet/SupplementalData/Payload/ECChain); message acceptance is the last step after every check and after nothing but acceptance follows a cache insertion; the committee cache remembers only successful look-ups; vote weights are scaled exactly (C01.R5–R7f).",
 "C02": "Also decided: structural equality predicates cover every field; acceptance gating, justification signature and exact threshold/scaling shared with C05/C08 (C02.R6d–R7b).",
 "C03": "Also decided: certificate validation checks the signature the way the decision is built — aggregate over the whole table's key set, DECIDE payload, same threshold — and its per-certificate gates (shared with C04), scaled power computed exactly (C03.R7b–R8b).",
 "C04": "Also decided: every accepted certificate replaces the expected base (no path through the loop keeps a nil/previous base); TipSet equality covers every field; exact threshold, operand provenance and arbitrary-precision scaling shared with C08 (C04.R1, R8–R8c).",
 "C05": "Also decided: nothing but acceptance is reachable after a cache insertion (message and justification caches); the committee cache remembers only successful non-nil look-ups under the requested instance and evicts only below the bound; the progress observer publishes every notification; the BLS backend caches a public key only after it decoded to a non-null point; structural equality of supplemental data covers every field (C05.R9–R12).",
 "C07": "Also decided: the host chain is truncated before it is validated at instance start; delivery guards of receiveOne; after a decision the host alarm is always re-programmed; the wire-level one-message-per-slot rules of C12 (filter ≺ WAL ≺ publish, filter re-armed from the WAL) and the exact threshold (C07.R10–R14).",
 "C09": "Also decided: at open, with a latest certificate L the head table is GetPowerTable(L+1) for L <, =, > first instance; GetRange reports completeness only with end − start + 1 certificates; creators and Put write in crash-safe order (shared with C10); delta application rules shared with C04 (C09.R3, R7–R9c).",
 "C12": "Also decided: recorded slot signatures are never deleted or cleared while their instance is current; the WAL's own durability/reader/file rules (shared with C11) (C12.R5, R8–R8c).",
 "C13": "Also decided: the per-phase validity table is shared by the partial and full paths (C13.R10).",
 "C15": "Also decided: the two per-tipset power-table memoisations never remember a failed look-up and key/value belong to the requested tipset; the power store anchors its certificate-derived table at the head finalized by the look-back certificate; the certstore's cached head table changes only with a stored certificate (C15.R4, R8–R9).",
 "C16": "Also decided: the poller's (NextInstance, PowerTable) pair is loaded together for the same instance at construction and CatchUp, NextInstance starts at latest+1, the advance does not depend on who stored the certificate; the client's receive goroutine works on a private copy of the request; the stored prefix before a missing certificate is still served; the validation the poller relies on (shared with C04) and the store's admission gates (shared with C09) (C16.R1, R3–R6).",
 "C17": "Also decided: a snapshot is accepted only after the end of input was observed (surplus blocks rejected); the digest's hasher is created by the export call; the checkpoint gate follows the delta application within the same iteration; delta application and checkpoint reader/writer agreement shared with C04/C09 (C17.R1, R3, R4, R6–R7b).",
 "C18": "Also decided: admission is decided on a single snapshot of the progress; option setters with a meaningful zero store the given value; nothing returns before the per-prefix caching loop; TipSet equality covers every field (C18.R3, R6).",
 "C19": "Also decided: certchain's look-back list receives a certificate only after every check of its own iteration passed; the oracle's threshold and scaling are exact (shared with C08) (C19.R3–R4b).",
 "C20": "Also decided: the explore distance is clamped on its own value to [min/100, max/2]; poll outcomes are booked under their own tracker method; the poller advance rules shared with C16 (C20.R3, R5, R6).",
}
ADD2 = {
 "C01": "The lookups of the validation cache are read-only; an honest node's wire discipline (filter ≺ WAL ≺ publish, the runner's own filter re-armed from the WAL) shared with C12 (C01.R7g, R8).",
 "C02": "Validation-cache lookups are read-only (C02.R6f).",
 "C03": "Validation-cache lookups are read-only; the committee's aggregate verifier is built over the keys of the committee's own sorted table (C03.R5, R6c).",
 "C06": "Also: the participant can always use its own proposal — a value adopted at COMMIT is a candidate on every path, late QUALITY extends candidates from the input, the start truncates before it validates; after a decision the alarm is re-programmed (C06.R1, R5).",
 "C07": "A value adopted at COMMIT is made a candidate on every path (C07.R6).",
 "C08": "PowerTable.Copy clones its slices and map; the message validator applies the threshold on every presentation (rules shared with C05) (C08.R4, R5).",
 "C10": "CreateStore decides existence on the first-instance marker alone, so an interrupted creation can be repeated (C10.R2).",
 "C11": "The entry is marshalled into a buffer local to the Append call (C11.R1).",
 "C13": "Both completion paths install the chain before inferring the justification value; cache lookups read-only (C13.R4, R11).",
 "C14": "AllPrefixes hands out capacity-limited prefixes; bytes prepared for signing are freshly allocated (C14.R1, R2).",
 "C15": "The committee's aggregate verifier uses the keys of its own sorted table (C15.R5).",
 "C19": "certchain.GetCommittee writes no generator state (no memo across Generate) (C19.R3).",
 "C12": "The WAL replay re-arms the runner's own filter (C12.R4).",
}
for _pid, _extra in ADD2.items():
    ADD[_pid] = ADD.get(_pid, "") + " " + _extra
for _pid, _extra in ADD.items():
    CLAIMED[_pid]['text'] += ' ' + _extra
