claim("C10", "static analysis: write-order dominance + failure-injection SCCP + datastore provenance on certstore",
  "Decides, for every CFG path of certstore Put/CreateStore/OpenOrCreateStore/DeleteAll/maybeContinueDelete/open, the write-order, error-guarding, tombstone-protocol and resume-provenance rules that crash atomicity needs (C10.R1–R6). These are necessary conditions visible in the code shape; the behaviour after a real crash is not executed or modelled.",
  "Assumes a single datastore write is atomic/durable (AS1); trusts go/types, go/ssa and the rule tables in checker/c10.go.",
  "DESIGN.md §4 C10")
