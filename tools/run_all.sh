#!/bin/bash
# run_all.sh [quick|thorough]: run every registered check, print one summary line each.
cd "$(dirname "$0")/.."
T=${1:-quick}
for p in $(jq -r '.checks[].property_id' MANIFEST.json); do
  out=$(./check.sh $p $T 2>&1); rc=$?
  echo "$p rc=$rc $(echo "$out" | grep -E "^$p $T" | tail -1)"
  echo "$out" | grep -E "VIOLATION|SELF-TEST|KNOWN-FINDING" | head -5
done
