#!/usr/bin/env python3
"""mkmut.py PROP NAME RULE FILE OLD NEW [FILE OLD NEW ...]
Create /verif/mutants/PROP/NAME.patch: one-instance-broken variant of /repo
(exact string replacement, must match exactly once), compile-checked in a
scratch copy that is removed afterwards."""
import sys, os, subprocess, tempfile, shutil
prop, name, rule = sys.argv[1:4]
trip = sys.argv[4:]
assert len(trip) % 3 == 0 and trip
scratch = tempfile.mkdtemp(prefix="mkmut-")
try:
    subprocess.check_call(["rsync", "-a", "--exclude", ".git", "/repo/", scratch + "/"])
    files = []
    for i in range(0, len(trip), 3):
        f, old, new = trip[i:i+3]
        p = os.path.join(scratch, f)
        s = open(p).read()
        if s.count(old) != 1:
            sys.exit(f"{f}: pattern occurs {s.count(old)} times: {old!r}")
        open(p, "w").write(s.replace(old, new))
        files.append(f)
    env = dict(os.environ, GOFLAGS="-mod=mod", GOPROXY="off")
    pk = sorted(set("./" + os.path.dirname(f) for f in files))
    r = subprocess.run(["go", "build"] + pk, cwd=scratch, env=env, capture_output=True, text=True)
    if r.returncode != 0:
        sys.exit("mutant does not compile:\n" + r.stderr)
    r = subprocess.run(["go", "vet"] + pk, cwd=scratch, env=env, capture_output=True, text=True)
    out = f"# mutant: {name}\n# rule: {rule}\n# property: {prop}\n"
    for f in sorted(set(files)):
        d = subprocess.run(["diff", "-u", "--label", "a/" + f, "--label", "b/" + f, "/repo/" + f, os.path.join(scratch, f)], capture_output=True, text=True)
        out += d.stdout
    os.makedirs(f"/verif/mutants/{prop}", exist_ok=True)
    open(f"/verif/mutants/{prop}/{name}.patch", "w").write(out)
    print("wrote", f"/verif/mutants/{prop}/{name}.patch")
finally:
    shutil.rmtree(scratch, ignore_errors=True)
