#!/usr/bin/env python3
"""sweep.py — systematic first-order mutation sweep used to look for blind spots of the static rules.

  tools/sweep.py check  OUT file.go...        generate mutants (bin/mutgen) and run the relevant properties'
                                              rules on each (overlay, no copy of the tree); writes OUT/results.jsonl
  tools/sweep.py tests  OUT [--jobs N]        for every mutant the rules did NOT report: run the touched package's
                                              existing tests in a scratch worktree (removed afterwards);
                                              survivors are the candidates to triage by hand
  tools/sweep.py report OUT                   summary + list of survivors

This is a development aid, not a registered check: it never writes evidence.
"""
import json, os, re, subprocess, sys, collections, concurrent.futures as cf, tempfile, shutil

VERIF = os.path.dirname(os.path.dirname(os.path.abspath(__file__)))
REPO = '/repo'
ENV = dict(os.environ, GOFLAGS='-mod=mod', GOPROXY='off', GOWORK='off')
ENV.pop('GOSUMDB', None); ENV.pop('GOTOOLCHAIN', None)


def file_props():
    """file -> properties whose obligations are located in it (from the current evidence) or that anchor it."""
    m = collections.defaultdict(set)
    lines = collections.defaultdict(set)
    claimed = set()
    for c in json.load(open(f'{VERIF}/MANIFEST.json'))['checks']:
        claimed.add(c['property_id'])
    for p in claimed:
        ev = json.load(open(f'{VERIF}/evidence/{p}.json'))
        for o in ev['coverage']['all_obligations']:
            w = o.get('where') or ''
            mm = re.match(r'(.*\.go):(\d+)', w)
            if mm:
                m[mm.group(1)].add(p)
                lines[mm.group(1)].add(int(mm.group(2)))
    for l in open(f'{VERIF}/properties.jsonl'):
        d = json.loads(l)
        if d['id'] in claimed:
            for f in d['anchors']['files']:
                m[f].add(d['id'])
    return m, lines


def run_checker(mut, props):
    env = dict(ENV, F3LINT_OVERLAY=f"{mut['file']}={mut['path']}")
    try:
        r = subprocess.run([f'{VERIF}/bin/f3lint', '-prop', ','.join(sorted(props)) + ',', '-selftest-child', '-repo', REPO],
                           env=env, capture_output=True, text=True, timeout=900)
    except subprocess.TimeoutExpired:
        return 'timeout', []
    out = r.stdout
    if 'CHILD-LOAD-ERROR' in out or 'load:' in out and r.returncode == 3:
        return 'nocompile', []
    reps = []
    for ln in out.splitlines():
        if ln.startswith('CHILD-REPORT'):
            f = ln.split('\t')
            reps.append((f[1], f[2]))
    if 'panic' in out and not reps:
        return 'panic', [out[-500:]]
    return ('detected' if reps else 'undetected'), sorted(set(r for r, _ in reps))[:6]


def cmd_check(out, files, jobs):
    os.makedirs(out, exist_ok=True)
    fp, _ = file_props()
    done = set()
    resf = f'{out}/results.jsonl'
    if os.path.exists(resf):
        for l in open(resf):
            d = json.loads(l); done.add((d['file'], d['line'], d['op'], d['old'], d['new']))
    muts = []
    for f in files:
        tag = f.replace('/', '_')
        d = f'{out}/m_{tag}'
        if not os.path.exists(f'{d}/index.jsonl'):
            subprocess.run([f'{VERIF}/bin/mutgen', '-repo', REPO, '-out', d, f], check=True, stdout=subprocess.DEVNULL)
        for l in open(f'{d}/index.jsonl'):
            m = json.loads(l)
            if m['op'] == 'neg-if' and re.match(r'^[\w.]+ (!=|==|<|<=|>|>=) [\w.]+$', m['old']):
                continue  # same as the operator swap
            if (m['file'], m['line'], m['op'], m['old'], m['new']) in done:
                continue
            muts.append(m)
    print(f'{len(muts)} mutants to check ({len(done)} already done)', flush=True)
    with open(resf, 'a') as rf, cf.ThreadPoolExecutor(jobs) as ex:
        futs = {ex.submit(run_checker, m, fp.get(m['file']) or {'C01'}): m for m in muts}
        n = 0
        for fu in cf.as_completed(futs):
            m = futs[fu]
            st, rules = fu.result()
            m2 = {k: m[k] for k in ('file', 'line', 'func', 'op', 'old', 'new', 'path', 'fstart', 'fend')}
            m2.update(status=st, rules=rules)
            rf.write(json.dumps(m2) + '\n'); rf.flush()
            n += 1
            if n % 50 == 0:
                print(f'  {n}/{len(muts)}', flush=True)


def run_tests(job):
    m, wt = job
    pkg = './' + (os.path.dirname(m['file']) or '.')
    dst = f"{wt}/{m['file']}"
    shutil.copy(m['path'], dst)
    try:
        extra = []
        if pkg == './gpbft':
            extra = ['./emulator/...'] if os.path.isdir(f'{wt}/emulator') else []
        r = subprocess.run(['go', 'test', '-count=1', '-timeout', '8m', pkg] + extra, cwd=wt, env=ENV, capture_output=True, text=True, timeout=900)
        ok = r.returncode == 0
        tail = (r.stdout + r.stderr)[-300:]
    except subprocess.TimeoutExpired:
        ok, tail = False, 'timeout'
    finally:
        subprocess.run(['git', 'checkout', '--', m['file']], cwd=wt)
    return ok, tail


def cmd_tests(out, jobs):
    res = [json.loads(l) for l in open(f'{out}/results.jsonl')]
    tf = f'{out}/tests.jsonl'
    done = set()
    if os.path.exists(tf):
        for l in open(tf):
            d = json.loads(l); done.add(d['path'])
    todo = [m for m in res if m['status'] == 'undetected' and m['path'] not in done]
    print(f'{len(todo)} undetected mutants to test', flush=True)
    wts = []
    for i in range(jobs):
        wt = tempfile.mkdtemp(prefix='sweepwt-', dir='/tmp'); os.rmdir(wt)
        subprocess.run(['git', '-C', REPO, 'worktree', 'add', '--detach', '-q', wt, 'HEAD'], check=True)
        wts.append(wt)
    import queue
    q = queue.Queue()
    for w in wts: q.put(w)
    def work(m):
        wt = q.get()
        try:
            return run_tests((m, wt))
        finally:
            q.put(wt)
    try:
        with open(tf, 'a') as f, cf.ThreadPoolExecutor(jobs) as ex:
            futs = {ex.submit(work, m): m for m in todo}
            n = 0
            for fu in cf.as_completed(futs):
                m = futs[fu]; ok, tail = fu.result()
                m = dict(m, tests='survived' if ok else 'killed', tail='' if ok else tail)
                f.write(json.dumps(m) + '\n'); f.flush()
                n += 1
                if n % 20 == 0: print(f'  {n}/{len(todo)}', flush=True)
    finally:
        for wt in wts:
            subprocess.run(['git', '-C', REPO, 'worktree', 'remove', '--force', wt])
            shutil.rmtree(wt, ignore_errors=True)


def cmd_report(out):
    res = [json.loads(l) for l in open(f'{out}/results.jsonl')]
    c = collections.Counter(m['status'] for m in res)
    print('checker:', dict(c))
    tf = f'{out}/tests.jsonl'
    if os.path.exists(tf):
        ts = [json.loads(l) for l in open(tf)]
        print('tests on undetected:', dict(collections.Counter(m['tests'] for m in ts)))
        for m in sorted(ts, key=lambda m: (m['file'], m['line'])):
            if m['tests'] == 'survived':
                print(f"SURVIVOR {m['file']}:{m['line']} {m['func']} [{m['op']}] {m['old'][:90]!r} -> {m['new'][:90]!r}")


if __name__ == '__main__':
    cmd, out = sys.argv[1], sys.argv[2]
    jobs = 8
    args = sys.argv[3:]
    if '--jobs' in args:
        i = args.index('--jobs'); jobs = int(args[i + 1]); del args[i:i + 2]
    if cmd == 'check': cmd_check(out, args, jobs)
    elif cmd == 'tests': cmd_tests(out, jobs)
    elif cmd == 'report': cmd_report(out)
