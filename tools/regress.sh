#!/bin/bash
# regress.sh: (1) every benign refactor must be silent, (2) every seeded change and registered mutant must be reported.
cd "$(dirname "$0")/.."
declare -A GP; GP[G1]="C01 C02 C07 C03"; GP[G2]="C05 C13 C03 C12 C01"; GP[G3]="C09 C10 C17"; GP[G4]="C04 C08 C14"; GP[G5]="C11 C12 C16 C20"; GP[G6]="C15 C18 C19"; GP[H1]="${GP[G1]}"; GP[H2]="${GP[G2]}"; GP[H3]="${GP[G3]}"; GP[H4]="C04 C08 C14 C01 C03"; GP[H5]="${GP[G5]}"; GP[H6]="${GP[G6]}"; GP[J1]="C01 C02 C03 C04 C05 C06 C07 C08 C13 C18"; GP[J2]="C03 C04 C09 C10 C15 C16 C17 C19"; GP[J3]="C12 C15 C16 C18 C19 C20"; GP[K1]="C01 C02 C03 C06 C07"; GP[K2]="C11 C12 C15 C16 C17 C18 C20 C07"
fa=0; miss=0
run() { tools/seedcheck.sh "$@" 2>&1 | grep -E "CHILD-REPORT|DOES NOT|panic" ; }
export -f run
if [ "${1:-all}" != "detect" ]; then
for f in benign/${BENIGN_GLOB:-*}.diff; do g=$(basename $f .diff); grp=${g%-*}
  out=$(run $f ${GP[$grp]})
  if [ -n "$out" ]; then fa=$((fa+1)); echo "FALSE-ALARM $g"; echo "$out" | cut -f2-4 | cut -c1-200 | head -6; fi
done
echo "benign refactors with a false alarm: $fa / $(ls benign/*.diff | wc -l)"
fi
if [ "${1:-all}" != "benign" ]; then
for f in mutants/*/*.patch; do p=$(basename $(dirname $f))
  out=$(run $f $p)
  if ! echo "$out" | grep -q CHILD-REPORT; then miss=$((miss+1)); echo "MISSED $f: $out"; fi
done
echo "registered mutants/seeded changes missed: $miss / $(ls mutants/*/*.patch | wc -l)"
fi
