#!/bin/bash
# ingest.sh <seed-out-dir> <prop> <letters...>: confirm each <seed-out-dir>/<n> with seedverify.sh, store it as
# seeded/<prop>-<letter>, and run the property's quick rules on it (seedcheck.sh). Prints one line per seed.
cd "$(dirname "$0")/.."
SD="$1"; P="$2"; shift 2
n=0
for L in "$@"; do n=$((n+1))
  [ -f "$SD/$n/patch.diff" ] || { echo "$P-$L: no patch in $SD/$n"; continue; }
  out=$(tools/seedverify.sh "$SD/$n" "$P-$L" 2>&1)
  if echo "$out" | grep -q "^CONFIRMED"; then
    rep=$(tools/seedcheck.sh seeded/$P-$L/patch.diff $P 2>&1 | grep CHILD-REPORT | cut -f2,4 | cut -c1-160 | head -3 | tr '\n' ';')
    if [ -n "$rep" ]; then echo "$P-$L: CONFIRMED, DETECTED: $rep"; else echo "$P-$L: CONFIRMED, MISSED"; fi
  else
    echo "$P-$L: NOT CONFIRMED: $(echo "$out" | tail -8 | tr '\n' ' ' | cut -c1-600)"
  fi
done
