#!/bin/bash
# seedverify.sh <seed-dir> <dest-id>: confirm a sub-agent's seeded change in a scratch worktree of /repo:
#   with patch: go build ./... ok, existing tests of the touched packages pass, demo FAILS
#   without   : demo PASSES
# then store it as /verif/seeded/<dest-id>/ {patch.diff, demo, meta.json(+confirmed_by)}
set -u
SD="$1"; ID="$2"
export GOFLAGS=-mod=mod GOPROXY=off
WT=$(mktemp -d /tmp/seedverify-XXXX); rmdir "$WT"
git -C /repo worktree add --detach -q "$WT" HEAD || exit 2
cleanup() { git -C /repo worktree remove --force "$WT" 2>/dev/null; rm -rf "$WT"; }
trap cleanup EXIT
DEST=$(jq -r .demo_dest "$SD/meta.json"); RUN=$(jq -r .demo_run_cmd "$SD/meta.json")
DEMO=$(basename "$DEST")
[ -f "$SD/$DEMO" ] || { echo "demo file $DEMO missing in $SD"; ls "$SD"; exit 2; }
cd "$WT"
cp "$SD/$DEMO" "$DEST"
echo "## demo without patch"; bash -c "$RUN" > /tmp/sv-$ID-base.log 2>&1; BASE=$?
git apply "$SD/patch.diff" || { echo "patch does not apply"; exit 2; }
PKGS=$(git diff --name-only | xargs -n1 dirname | sort -u | sed 's|^|./|')
echo "## build"; go build ./... ; BUILD=$?
echo "## demo with patch"; bash -c "$RUN" > /tmp/sv-$ID-mut.log 2>&1; MUT=$?
rm -f "$DEST"
echo "## existing tests of $PKGS"; go test -count=1 -p 4 -timeout 20m $PKGS > /tmp/sv-$ID-pkg.log 2>&1; PKG=$?
echo "base_demo_exit=$BASE build=$BUILD mutated_demo_exit=$MUT existing_pkg_tests_exit=$PKG"
if [ $BASE -eq 0 ] && [ $BUILD -eq 0 ] && [ $MUT -ne 0 ] && [ $PKG -eq 0 ]; then
  mkdir -p /verif/seeded/$ID
  cp "$SD/patch.diff" "$SD/$DEMO" /verif/seeded/$ID/
  jq --arg pk "$PKGS" '. + {confirmed: {by: "tools/seedverify.sh in a scratch worktree", demo_without_patch: "pass", build_with_patch: "ok", demo_with_patch: "fail", existing_tests_with_patch: ("pass: go test -count=1 " + $pk), full_suite: "run by the seeding sub-agent (see commands_run)"}}' "$SD/meta.json" > /verif/seeded/$ID/meta.json
  echo "CONFIRMED -> /verif/seeded/$ID"
else
  echo "NOT CONFIRMED"; tail -5 /tmp/sv-$ID-base.log /tmp/sv-$ID-mut.log /tmp/sv-$ID-pkg.log
fi
