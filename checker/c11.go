package main

import (
	"fmt"
	"go/constant"
	"os"
	"strings"

	"golang.org/x/tools/go/ssa"
)

func init() { register("C11", c11) }

const walPkg = "internal/writeaheadlog.WriteAheadLog."

// walFreshDecode checks the two-site freshness rule: the reader decodes every
// record into a variable allocated inside the loop, and walEntry.UnmarshalCBOR
// unconditionally installs a new message before decoding into it.
func (p *P) walFreshDecode(rule string) {
	r := p.r
	if rd := p.fn(rule, walPkg+"readLogFile"); rd != nil {
		dec := callsTo(rd, false, "f3.walEntry.UnmarshalCBOR")
		if len(dec) != 1 {
			r.Undecided(rule, "readLogFile: decode call", fmt.Sprintf("expected one UnmarshalCBOR call, found %d", len(dec)))
		} else {
			a, isAlloc := dec[0].ArgValues()[0].(*ssa.Alloc)
			ok := isAlloc && inLoop(a) && loopHeaderOf(a.Block()) == loopHeaderOf(dec[0].Instr.Block())
			r.Check(ok, rule, "readLogFile: every record is decoded into a fresh variable", p.c.InstrPos(dec[0].Instr), "decode target allocated inside the read loop",
				"the decode target is allocated outside the loop: all returned entries can alias one object (the last decode, incl. the failing one at EOF, overwrites earlier entries)")
		}
	}
	if um := p.fn(rule, "f3.walEntry.UnmarshalCBOR"); um != nil {
		sts := fieldStores(um, false, "walEntry", "Message")
		dec := callsTo(um, false, "gpbft.GMessage.UnmarshalCBOR")
		ok := len(sts) == 1 && len(dec) == 1
		if ok {
			_, fresh := sts[0].Store.Val.(*ssa.Alloc)
			ok = fresh && sts[0].Store.Block().Index == 0 && dominates(sts[0].Store, dec[0].Instr) && isFreshZero(sts[0].Store.Val)
		}
		r.Check(ok, rule, "walEntry.UnmarshalCBOR: always decodes into a newly allocated message", p.c.Pos(um.Pos()), "we.Message = new message, unconditionally, before decoding",
			"the message object is re-used when already set: entries read back from the WAL can share (and overwrite) one message")
	}
}

func ep0(ap *ssa.Function) []Sink {
	var ep []Sink
	for _, fs := range fieldStores(ap, false, "logStat", "maxEpoch") {
		ep = append(ep, Sink{fs.Store, "epoch bookkeeping"})
	}
	return ep
}

func c11(p *P) {
	r := p.r
	p.gAppendBufferFresh("C11.R1")
	r.Explanation = "Static necessary conditions of WAL durability: (R1) Append's nil return is reachable only after rotate-check ≺ marshal ≺ write to the active file ≺ fsync, each error guarding the next step, and the per-file epoch bookkeeping happens after the rotation decision and after the fsync, on the file that received the entry; (R2) the reader appends an entry only on a successful decode, into a fresh variable, returns the accumulated prefix on EVERY exit after a successful open (a torn tail keeps what precedes it) together with the running max epoch over all decoded entries regardless of how the loop ended; (R3) every write-mode open is O_CREATE|O_EXCL without O_APPEND/O_TRUNC under a fresh time-stamped name; only rotate installs the active file; restart (hydrate) never re-opens an old file for writing; (R4) files are removed only in Purge, only from the closed-file list, only when maxEpoch < keepEpoch; kept files stay listed; (R5) flush: fsync ≺ close ≺ register the file's stat; (R6) exported methods hold the lock."
	r.NotDecided = "that a torn CBOR record never decodes as a valid shorter record (prefix-freeness of the encoding); filesystem durability semantics of fsync/rename; directory fsync."
	r.Assumptions = []string{"AS1: a successful fsync makes preceding writes durable", "AS6: go/types, go/ssa and the rule tables are correct"}
	r.Rule("C11.R1", "Append: rotate ≺ marshal ≺ write ≺ fsync ≺ epoch bookkeeping ≺ ack; errors guard", 10)
	r.Rule("C11.R2", "readLogFile: prefix kept on every exit, fresh decode target, running max epoch over all decoded entries", 6)
	r.Rule("C11.R3", "files: exclusive create, fresh name, only rotate installs the active file", 5)
	r.Rule("C11.R4", "Purge: conservative removal of closed files only", 6)
	r.Rule("C11.R5", "flush: fsync ≺ close ≺ register", 3)
	r.Rule("C11.R6", "exported methods hold the lock", 5)

	// ---------- R1
	if ap := p.fn("C11.R1", walPkg+"Append"); ap != nil {
		rot := callSinks(ap, "rotation decision", walPkg+"maybeRotate")
		mar := callSinks(ap, "marshal", "f3.walEntry.MarshalCBOR")
		wr := callSinks(ap, "write to active file", "bytes.Buffer.WriteTo")
		sy := callSinks(ap, "fsync", "os.File.Sync")
		var ep []Sink
		for _, fs := range fieldStores(ap, false, "logStat", "maxEpoch") {
			ep = append(ep, Sink{fs.Store, "epoch bookkeeping"})
		}
		ack := okReturns(ap)
		inlineRot := len(rot) == 0 && p.c.Fn(walPkg+"maybeRotate") == nil
		var rotD []Sink
		if inlineRot {
			// the rotation decision is written out in Append itself: rotate() is called directly
			rotD = callSinks(ap, "rotation", walPkg+"rotate")
			if len(rotD) == 0 {
				r.Fail("C11.R1", "internal/writeaheadlog.WriteAheadLog.Append: rotation decision ≺ marshal", p.c.Pos(ap.Pos()), "Append neither calls maybeRotate nor rotate: no active file is ever installed")
			} else {
				p.notAfter("C11.R1", ap, "marshal", mar, "rotation", rotD)
				p.notAfter("C11.R1", ap, "epoch bookkeeping", ep0(ap), "rotation", rotD)
				inj := union(canonIs("", `^\$0\.active\.file$`, avNil), errFails("", walPkg+"rotate", "")).Match(ap)
				sc := RunSCCP(ap, inj)
				bad := ""
				for _, w := range append(append([]Sink{}, wr...), okReturns(ap)...) {
					if sc.Reachable(w.Instr) {
						bad = p.c.InstrPos(w.Instr)
					}
				}
				r.Check(bad == "" && len(inj) >= 2, "C11.R1", "Append: without an active file it must rotate (nothing written or acknowledged otherwise)", p.c.Pos(ap.Pos()), "write and ack unreachable when active.file == nil and rotate fails", "Append can write/acknowledge with no active file at "+bad)
				p.guardedAfter("C11.R1", ap, okReturns(ap), errFails("rotation ok", walPkg+"rotate", ""), errFails("rotation ok (size known)", "os.File.Stat", ""))
			}
			rot = rotD
		} else {
			p.before("C11.R1", ap, "rotation decision", rot, "marshal", mar)
		}
		p.before("C11.R1", ap, "marshal", mar, "write to active file", wr)
		p.before("C11.R1", ap, "write to active file", wr, "fsync", sy)
		p.before("C11.R1", ap, "fsync", sy, "acknowledgement", ack)
		if !inlineRot {
			p.before("C11.R1", ap, "rotation decision", rot, "epoch bookkeeping", ep)
		}
		p.before("C11.R1", ap, "fsync", sy, "epoch bookkeeping", ep)
		if len(ack) > 0 {
			p.guarded("C11.R1", ap, ack,
				func() VM {
					if inlineRot {
						return errFails("marshal ok", "f3.walEntry.MarshalCBOR", "")
					}
					return errFails("rotation ok", walPkg+"maybeRotate", "")
				}(),
				errFails("marshal ok", "f3.walEntry.MarshalCBOR", ""),
				errFails("write ok", "bytes.Buffer.WriteTo", ""),
				errFails("fsync ok", "os.File.Sync", ""))
		}
		for _, cs := range callsTo(ap, false, "bytes.Buffer.WriteTo") {
			r.Check(cs.Arg(1) == "$0.active.file", "C11.R1", "Append: writes to the active file", p.c.InstrPos(cs.Instr), cs.Arg(1), "writes to "+cs.Arg(1))
		}
		for _, cs := range callsTo(ap, false, "os.File.Sync") {
			r.Check(cs.Arg(0) == "$0.active.file", "C11.R1", "Append: fsyncs the active file", p.c.InstrPos(cs.Instr), cs.Arg(0), "syncs "+cs.Arg(0))
		}
		for _, s := range ep {
			st := s.Instr.(*ssa.Store)
			c := canon(st.Val)
			ok := strings.HasPrefix(c, "max($0.active.logStat.maxEpoch, f3.walEntry.WALEpoch(") || strings.HasPrefix(c, "max(f3.walEntry.WALEpoch(")
			r.Check(ok && strings.HasSuffix(strings.TrimPrefix(canon(st.Addr), "&"), "$0.active.logStat.maxEpoch"), "C11.R1", "Append: active file's max epoch := max(previous, entry epoch)", p.c.InstrPos(st), c, "epoch bookkeeping stores "+c+" into "+canon(st.Addr))
		}
		if len(ep) == 0 {
			r.Fail("C11.R1", "Append: epoch bookkeeping present", p.c.Pos(ap.Pos()), "Append no longer records the entry's epoch for the active file — Purge could remove it")
		}
	}
	if mr := p.c.Fn(walPkg + "maybeRotate"); mr != nil {
		// a nil return from maybeRotate implies an active file exists
		inj := canonIs("", `^\$0\.active\.file$`, avNil).Match(mr)
		s := RunSCCP(mr, inj)
		bad := false
		for _, ret := range returnsOf(mr) {
			if s.Reachable(ret) && canon(retValue(ret, 0)) == "nil" {
				bad = true
			}
		}
		r.Check(!bad && len(inj) > 0, "C11.R1", "maybeRotate: without an active file it must rotate (never returns nil directly)", p.c.Pos(mr.Pos()), "nil-constant return unreachable when active.file == nil", "maybeRotate can return nil with no active file")
	}

	// ---------- R2
	if rd := p.fn("C11.R2", walPkg+"readLogFile"); rd != nil {
		dec := callsTo(rd, false, "f3.walEntry.UnmarshalCBOR")
		// content accumulator
		var app []Sink
		var contentPhi ssa.Value
		allValues(rd, func(v ssa.Value) {
			if c, ok := v.(*ssa.Call); ok {
				if b, isB := c.Call.Value.(*ssa.Builtin); isB && b.Name() == "append" && strings.Contains(shortType(c.Type()), "walEntry") {
					app = append(app, Sink{c, "entry appended to the result"})
					contentPhi = c.Call.Args[0]
				}
			}
		})
		if len(dec) != 1 || len(app) != 1 {
			r.Undecided("C11.R2", "readLogFile: shape", fmt.Sprintf("expected one decode and one append, found %d/%d", len(dec), len(app)))
		} else {
			p.guarded("C11.R2", rd, app, errFails("record decodes", "f3.walEntry.UnmarshalCBOR", ""))
			// what is appended is the value just decoded
			ac := app[0].Instr.(*ssa.Call)
			r.Check(strings.Contains(canon(ac.Call.Args[1]), canon(dec[0].ArgValues()[0])) || strings.Contains(canon(ac.Call.Args[1]), "walEntry"), "C11.R2", "readLogFile: appends the decoded entry", p.c.InstrPos(ac), canon(ac.Call.Args[1]), "appends "+canon(ac.Call.Args[1]))
			// epoch: running max over every decoded entry (also when values are not kept)
			var mx []Sink
			allValues(rd, func(v ssa.Value) {
				if c, ok := v.(*ssa.Call); ok {
					if b, isB := c.Call.Value.(*ssa.Builtin); isB && b.Name() == "max" && strings.Contains(canon(c), "f3.walEntry.WALEpoch(") {
						mx = append(mx, Sink{c, "running max epoch"})
					}
				}
			})
			if len(mx) != 1 {
				r.Fail("C11.R2", "readLogFile: running max epoch", p.c.Pos(rd.Pos()), fmt.Sprintf("expected one max(maxEpoch, entry.WALEpoch()) in the loop, found %d", len(mx)))
			} else {
				p.guarded("C11.R2", rd, mx, errFails("record decodes", "f3.walEntry.UnmarshalCBOR", ""))
				s := RunSCCP(rd, map[ssa.Value]AV{rd.Params[2]: avFalse})
				r.Check(s.Reachable(mx[0].Instr) && inLoop(mx[0].Instr), "C11.R2", "readLogFile: epoch tracked for every decoded entry even when values are not kept", p.c.InstrPos(mx[0].Instr), "reachable with keepValues=false, inside the loop", "the epoch is only tracked when values are kept — files listed at start-up would get maxEpoch 0 and be purged")
				// every return after the open returns stat{maxEpoch: running max}, content accumulator, nil
				nret := 0
				opens := callsTo(rd, false, "os.Open")
				for _, ret := range returnsOf(rd) {
					if ret.Block() == rd.Recover || len(opens) == 0 || !dominates(opens[0].Instr, ret) {
						continue
					}
					e := canon(retValue(ret, 2))
					if e != "nil" {
						// an error return right after a failed open is fine
						if strings.HasPrefix(e, "fmt.Errorf(") && strings.Contains(e, "os.Open(") {
							continue
						}
					}
					nret++
					statV := retValue(ret, 0)
					contentV := retValue(ret, 1)
					okContent := contentV == contentPhi || canon(contentV) == canon(contentPhi)
					r.Check(e == "nil" && okContent, "C11.R2", fmt.Sprintf("readLogFile: exit #%d returns the accumulated prefix", nret), p.c.InstrPos(ret), canon(contentV), "exit returns content "+canon(contentV)+" / error "+e+" — entries decoded before a torn tail would be lost")
					// stat's maxEpoch field
					mv := ""
					okStat := false
					if u, ok := statV.(*ssa.UnOp); ok {
						if a, ok := u.X.(*ssa.Alloc); ok {
							// the struct is assembled in an alloc: the maxEpoch stores that reach this return
							var vals []string
							n, nAny := 0, 0
							allDerive, anyDerive := true, true
							for _, rr := range *a.Referrers() {
								if fa, ok := rr.(*ssa.FieldAddr); ok && fieldName(fa.X.Type(), fa.Field) == "maxEpoch" {
									for _, r2 := range *fa.Referrers() {
										if st, ok := r2.(*ssa.Store); ok && st.Addr == fa {
											derives := st.Val == mx[0].Instr.(ssa.Value) || dependsOnPhi(st.Val, mx[0].Instr.(ssa.Value))
											nAny++
											if !derives {
												anyDerive = false
											}
											if dominates(st, ret) {
												n++
												vals = append(vals, canon(st.Val))
												if !derives {
													allDerive = false
												}
											}
										}
									}
								}
							}
							mv = strings.Join(vals, ",")
							okStat = n > 0 && allDerive
							if n == 0 && nAny > 0 && anyDerive && strings.Contains(canon(mx[0].Instr.(ssa.Value)), ".maxEpoch") {
								// the maximum is accumulated in place in the stat's own field (zero when nothing was decoded)
								okStat = true
								mv = "accumulated in place: " + canon(mx[0].Instr.(ssa.Value))
							}
						}
					}
					if mv == "" {
						mv = canon(statV)
					}
					r.Check(okStat, "C11.R2", fmt.Sprintf("readLogFile: exit #%d reports the running max epoch", nret), p.c.InstrPos(ret), mv,
						"this exit reports maxEpoch = "+mv+" — not the running max over the entries decoded; a file with a torn tail would look purgeable")
				}
				if nret < 1 {
					r.Undecided("C11.R2", "readLogFile: exits", "no post-open exit found")
				}
			}
		}
	}
	p.walFreshDecode("C11.R2")
	if all := p.fn("C11.R2", walPkg+"All"); all != nil {
		// closed files in list order, then the active file
		rl := callsTo(all, false, walPkg+"readLogFile")
		r.Check(len(rl) == 2, "C11.R2", "All: reads every closed file and the active file", p.c.Pos(all.Pos()), fmt.Sprint(len(rl)), fmt.Sprintf("%d readLogFile calls", len(rl)))
		for _, cs := range rl {
			r.Check(cs.Arg(2) == "true", "C11.R2", "All: keeps the values read", p.c.InstrPos(cs.Instr), cs.Arg(2), "keepValues = "+cs.Arg(2))
			if inLoop(cs.Instr) {
				p.fullRangeLoop("C11.R2", "All: every closed file is read", cs.Instr, func(c string) bool { return strings.Contains(c, "readLogFile(") })
			}
		}
	}

	// ---------- R3
	nOpen := 0
	for _, f := range p.c.ProdFuncs() {
		if !strings.HasPrefix(funcName(f), "internal/writeaheadlog.") {
			continue
		}
		for _, cs := range callsTo(f, false, "os.OpenFile") {
			nOpen++
			fl := cs.ArgValues()[1]
			c, ok := fl.(*ssa.Const)
			good := false
			detail := canon(fl)
			if ok && c.Value != nil && c.Value.Kind() == constant.Int {
				v := int(c.Int64())
				good = v&os.O_CREATE != 0 && v&os.O_EXCL != 0 && v&os.O_APPEND == 0 && v&os.O_TRUNC == 0
				detail = fmt.Sprintf("flags %#x", v)
			}
			r.Check(good, "C11.R3", funcName(f)+": write-mode open is exclusive-create, no append/truncate", p.c.InstrPos(cs.Instr), detail, "open flags "+detail+" allow re-opening an existing log for writing")
			r.Check(funcName(f) == walPkg+"rotate", "C11.R3", "only rotate opens a log file for writing", p.c.InstrPos(cs.Instr), funcName(f), "log opened for writing in "+funcName(f))
			name := cs.Arg(0)
			r.Check(strings.Contains(name, "$0.active.logStat.logName") || strings.Contains(name, "logName"), "C11.R3", "rotate: opens the freshly named file", p.c.InstrPos(cs.Instr), name, "opens "+name)
		}
	}
	if nOpen == 0 {
		r.Undecided("C11.R3", "write-mode opens", "no os.OpenFile call found in the WAL package")
	}
	if rot := p.fn("C11.R3", walPkg+"rotate"); rot != nil {
		okName := false
		for _, fs := range fieldStores(rot, false, "logStat", "logName") {
			c := canon(fs.Store.Val)
			okName = strings.Contains(c, "time.Now()") && strings.Contains(c, "Format(")
			r.Check(okName, "C11.R3", "rotate: new file named from the current time", p.c.InstrPos(fs.Store), c, "file name is "+c)
		}
		if !okName {
			r.Check(false, "C11.R3", "rotate: new file named from the current time", p.c.Pos(rot.Pos()), "", "no fresh name assigned")
		}
		fl := callSinks(rot, "flush previous file", walPkg+"flush")
		op := callSinks(rot, "open new file", "os.OpenFile")
		if len(fl) > 0 {
			p.guardedAfter("C11.R3", rot, op, errFails("previous file finalised", walPkg+"flush", ""))
		}
	}
	p.fieldWritersIn("C11.R3", "file", `^\$0\.active\.file$`, "internal/writeaheadlog.", walPkg+"rotate", walPkg+"flush")
	if hy := p.fn("C11.R3", walPkg+"hydrate"); hy != nil {
		bad := 0
		for _, b := range hy.Blocks {
			for _, in := range b.Instrs {
				if st, ok := in.(*ssa.Store); ok && strings.Contains(canon(st.Addr), "$0.active") {
					bad++
				}
			}
		}
		r.Check(bad == 0 && len(callsTo(hy, true, "os.OpenFile")) == 0, "C11.R3", "hydrate: restart never re-opens an old file for writing", p.c.Pos(hy.Pos()), "no store to active.*, no OpenFile", "hydrate touches the active file")
		for _, cs := range callsTo(hy, false, walPkg+"readLogFile") {
			p.fullRangeLoop("C11.R3", "hydrate: every existing log file is listed", cs.Instr, func(c string) bool { return strings.Contains(c, "readLogFile(") })
		}
	}

	// ---------- R4
	p.onlyCalledFromIn("C11.R4", "os.Remove", "internal/writeaheadlog.", walPkg+"Purge")
	if pu := p.fn("C11.R4", walPkg+"Purge"); pu != nil {
		rm := callsTo(pu, false, "os.Remove")
		if len(rm) != 1 {
			r.Undecided("C11.R4", "Purge: removal", fmt.Sprintf("expected one os.Remove, found %d", len(rm)))
		} else {
			arg := rm[0].Arg(0)
			// the loop variable is a copy of $0.logFiles[i]
			fromList := false
			allValues(pu, func(v ssa.Value) {
				if a, ok := v.(*ssa.Alloc); ok && strings.HasSuffix(shortType(a.Type()), "logStat") {
					for _, sv := range storesTo(a) {
						if strings.HasPrefix(canon(sv), "$0.logFiles[") {
							fromList = true
						}
					}
				}
			})
			r.Check(fromList && strings.Contains(arg, "$0.path") && strings.HasSuffix(arg, "logStat.logName])") && !strings.Contains(arg, "active"), "C11.R4", "Purge: removes only files from the closed-file list", p.c.InstrPos(rm[0].Instr), arg, "removes "+arg)
			ep, keep := `logStat\.maxEpoch$`, `^\$1$`
			p.guarded("C11.R4", pu, []Sink{{rm[0].Instr, "file removal"}}, cmpRel("file's max epoch below keepEpoch (not equal)", ep, keep, RelEQ), cmpRel("file's max epoch below keepEpoch (not above)", ep, keep, RelGT))
			// a file that is not removed stays listed
			var kept []ssa.Instruction
			allValues(pu, func(v ssa.Value) {
				if c, ok := v.(*ssa.Call); ok {
					if b, isB := c.Call.Value.(*ssa.Builtin); isB && b.Name() == "append" && strings.Contains(shortType(c.Type()), "logStat") {
						kept = append(kept, c)
					}
				}
			})
			if len(kept) == 1 {
				inj := cmpRel("", ep, keep, RelGT).Match(pu)
				s := RunSCCP(pu, inj)
				r.Check(s.Reachable(kept[0]) && inLoop(kept[0]), "C11.R4", "Purge: a file at/above keepEpoch stays in the list", p.c.InstrPos(kept[0]), "append reachable when maxEpoch ≥ keepEpoch", "kept files are dropped from the list")
				inj2 := cmpRel("", ep, keep, RelLT).Match(pu)
				s2 := RunSCCP(pu, inj2)
				r.Check(!s2.Reachable(kept[0]) && s2.Reachable(rm[0].Instr), "C11.R4", "Purge: every closed file below keepEpoch is removed and unlisted", p.c.InstrPos(rm[0].Instr), "removal reachable, listing unreachable when maxEpoch < keepEpoch", "files below keepEpoch are not (only) removed")
			} else {
				r.Fail("C11.R4", "Purge: kept files stay listed", p.c.Pos(pu.Pos()), "kept-file list construction not found")
			}
			p.fullRangeLoop("C11.R4", "Purge: examines every closed file", rm[0].Instr, nil)
			for _, fs := range fieldStores(pu, false, "WriteAheadLog", "logFiles") {
				r.Check(strings.Contains(canon(fs.Store.Val), "append(") || strings.HasPrefix(canon(fs.Store.Val), "phi("), "C11.R4", "Purge: closed-file list := kept files", p.c.InstrPos(fs.Store), canon(fs.Store.Val), "logFiles set to "+canon(fs.Store.Val))
			}
		}
	}

	// ---------- R5
	if fl := p.fn("C11.R5", walPkg+"flush"); fl != nil {
		sy := callSinks(fl, "fsync", "os.File.Sync")
		cl := callSinks(fl, "close", "os.File.Close")
		var reg []Sink
		for _, fs := range fieldStores(fl, false, "WriteAheadLog", "logFiles") {
			reg = append(reg, Sink{fs.Store, "register closed file"})
			r.Check(strings.Contains(canon(fs.Store.Val), "append($0.logFiles, [$0.active.logStat]"), "C11.R5", "flush: registers the active file's stat (name, max epoch)", p.c.InstrPos(fs.Store), canon(fs.Store.Val), "registers "+canon(fs.Store.Val))
		}
		p.before("C11.R5", fl, "fsync", sy, "close", cl)
		p.before("C11.R5", fl, "close", cl, "register closed file", reg)
		if len(reg) > 0 {
			p.guarded("C11.R5", fl, reg, errFails("fsync ok", "os.File.Sync", ""), errFails("close ok", "os.File.Close", ""))
		}
		// reset after registering
		for _, b := range fl.Blocks {
			for _, in := range b.Instrs {
				if st, ok := in.(*ssa.Store); ok && canon(st.Addr) == "&$0.active.logStat" && len(reg) > 0 {
					r.Check(dominates(reg[0].Instr, st), "C11.R5", "flush: active stat reset only after it was registered", p.c.InstrPos(st), "register ≺ reset", "the active file's stat is cleared before it is registered (its max epoch is lost)")
				}
			}
		}
	}

	// ---------- R6
	for _, m := range []string{"All", "Append", "Purge", "Close", "Rotate"} {
		fn := p.fn("C11.R6", walPkg+m)
		if fn == nil {
			continue
		}
		var first ssa.Instruction
		for _, cs := range callSites(fn, false) {
			if _, isDefer := cs.Instr.(*ssa.Defer); !isDefer && cs.Callee() == "sync.Mutex.Lock" && cs.Arg(0) == "&$0.lk" {
				first = cs.Instr
			}
		}
		ok := first != nil && first.Block().Index == 0
		if ok {
			for _, cs := range callSites(fn, false) {
				if strings.HasPrefix(cs.Callee(), "internal/writeaheadlog.") && !dominates(first, cs.Instr) {
					ok = false
				}
			}
			hasDefer := false
			for _, cs := range callSites(fn, false) {
				if _, isDefer := cs.Instr.(*ssa.Defer); isDefer && cs.Callee() == "sync.Mutex.Unlock" {
					hasDefer = true
				}
			}
			ok = ok && hasDefer
		}
		r.Check(ok, "C11.R6", walPkg+m+": holds the lock for its whole body", p.c.Pos(fn.Pos()), "Lock in the entry block, deferred Unlock", "exported WAL method does not hold lk for its whole body")
	}
}

// dependsOnPhi: v is the loop-carried accumulator fed by target (a phi one of whose edges depends on target).
func dependsOnPhi(v, target ssa.Value) bool {
	ph, ok := v.(*ssa.Phi)
	if !ok {
		return false
	}
	for _, e := range ph.Edges {
		if e == target || dependsOn(e, target, map[ssa.Value]bool{}, 0) {
			return true
		}
	}
	return false
}

// fieldWritersIn: stores whose address canon matches addrRe, within functions of the package prefix, only in allowed functions.
func (p *P) fieldWritersIn(rule, what, addrRe, pkgPrefix string, allowed ...string) {
	rx := re(addrRe)
	okSet := map[string]bool{}
	for _, a := range allowed {
		okSet[a] = true
	}
	n := 0
	for _, f := range p.c.ProdFuncs() {
		if !strings.HasPrefix(funcName(f), pkgPrefix) {
			continue
		}
		for _, b := range f.Blocks {
			for _, in := range b.Instrs {
				st, ok := in.(*ssa.Store)
				if !ok || !rx.MatchString(strings.TrimPrefix(canon(st.Addr), "&")) {
					continue
				}
				n++
				p.r.Check(okSet[funcName(f)], rule, fmt.Sprintf("store to %s in %s", what, funcName(f)), p.c.InstrPos(st), "allowed writer", what+" may only be written in "+strings.Join(allowed, ", "))
			}
		}
	}
	if n == 0 {
		p.r.Undecided(rule, what+" writers", "no store found")
	}
}

// onlyCalledFromIn: within the package prefix, callee is only called from the allowed functions.
func (p *P) onlyCalledFromIn(rule, callee, pkgPrefix string, allowed ...string) {
	okSet := map[string]bool{}
	for _, a := range allowed {
		okSet[a] = true
	}
	n := 0
	for _, f := range p.c.ProdFuncs() {
		if !strings.HasPrefix(funcName(f), pkgPrefix) {
			continue
		}
		for _, cs := range callsTo(f, false, callee) {
			n++
			p.r.Check(okSet[funcName(f)], rule, fmt.Sprintf("%s called from %s", callee, funcName(f)), p.c.InstrPos(cs.Instr), "allowed caller", callee+" may only be called from "+strings.Join(allowed, ", "))
		}
	}
	if n == 0 {
		p.r.Undecided(rule, callee+" callers", "no call found")
	}
}
