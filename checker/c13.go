package main

import (
	"fmt"
	"sort"
	"strings"

	"golang.org/x/tools/go/ssa"
)

func init() { register("C13", c13) }

func c13(p *P) {
	r := p.r
	r.Explanation = "Static necessary conditions of two-stage = one-shot validation: (R1) the three copies of the justification table — the validator's (with keys), the full validator's (with values) and the partial-message manager's inference — agree with the specification and with each other (SSA map literals and an SCCP table over message phase × justification phase); (R2) FullyValidateMessage's accept is unreachable when the chain is malformed, the announced key differs from the chain's key, the message is no longer relevant, a zero key comes with a non-zero value/justification value, or the justification is for a different value/phase; (R3) stripping replaces exactly the fields completion restores and works on copies; (R4) completion binds by the announced key of the message's instance and re-derives the justification value before validation; the host validates completed messages one-shot and buffered ones through FullyValidateMessage; (R5) the signed bytes of partial and full form coincide (MarshalForSigning delegates with Value.Key()); (R6) the validator-side rules shared with C05: cache keys include the announced key / the key verified, justification guards, signature payload."
	r.NotDecided = "extensional equality of the two paths on all byte strings; chain-exchange retrieval itself (C18)."
	r.Assumptions = []string{"AS2: signatures are sound", "AS6: go/types, go/ssa and the rule tables are correct"}
	r.Rule("C13.R1", "sibling justification tables agree (validator, full validator, pmsg inference)", 3)
	r.Rule("C13.R2", "FullyValidateMessage: accept gated by chain validity, key consistency, relevance, zero-key rules, justification value/phase", 10)
	r.Rule("C13.R3", "ToPartialGMessage strips exactly what completion restores, on copies", 5)
	r.Rule("C13.R4", "completion binds by announced key and instance; host routes completed/buffered messages through validation", 7)
	r.Rule("C13.R5", "MarshalForSigning = MarshalForSigningWithValueKey(Value.Key())", 2)
	p.include(c05, map[string]string{"C05.R4": "C13.R6", "C05.R5": "C13.R7", "C05.R6": "C13.R8", "C05.R1": "C13.R9", "C05.R2": "C13.R10", "C05.R8": "C13.R11"},
		map[string]string{"C13.R11": "validation-cache structures: lookups are read-only", "C13.R10": "per-phase validity table identical for the partial and the full form", "C13.R6": "partial path: justification guards and expectation table", "C13.R7": "partial path: aggregate verified with the expected key", "C13.R8": "partial path: caches keyed by announced key / verified key, separate namespaces", "C13.R9": "partial path: message checks with the announced key"})

	p.gCompletionOrder("C13.R4")
	// ---------- R1
	fv := p.fn("C13.R1", "gpbft.cachingValidator.FullyValidateMessage")
	if fv != nil {
		mks := findMakeMaps(fv, "map[gpbft.Phase]map[gpbft.Phase]")
		if len(mks) != 1 {
			r.Undecided("C13.R1", "FullyValidateMessage: expectation table", fmt.Sprintf("expected one nested Phase map literal, found %d", len(mks)))
		} else {
			got := justTable(mapLiteral(mks[0]), false)
			want := p.specJustTable(false)
			r.Rows += len(got)
			r.Check(strings.Join(got, " ") == strings.Join(want, " "), "C13.R1", "FullyValidateMessage: justification value table = spec A3 = validator table", p.c.InstrPos(mks[0]), strings.Join(got, " "), "table is ["+strings.Join(got, " ")+"] expected ["+strings.Join(want, " ")+"]")
			var looks []string
			allValues(fv, func(v ssa.Value) {
				if l, ok := v.(*ssa.Lookup); ok && l.CommaOk {
					looks = append(looks, canon(l.Index))
				}
			})
			sort.Strings(looks)
			okL := len(looks) == 2 && strings.HasSuffix(looks[0], ".Justification.Vote.Phase") && strings.HasSuffix(looks[1], ".Vote.Phase") && !strings.Contains(looks[1], "Justification")
			r.Check(okL, "C13.R1", "FullyValidateMessage: table indexed by (message phase, justification phase)", p.c.InstrPos(mks[0]), strings.Join(looks, ","), "lookups index by "+strings.Join(looks, ","))
		}
	}
	if inf := p.fn("C13.R1", "pmsg.inferJustificationVoteValue"); inf != nil {
		var sts []Sink
		for _, fs := range fieldStores(inf, false, "Payload", "Value") {
			sts = append(sts, Sink{fs.Store, "justification value inferred"})
			ok := strings.HasSuffix(fs.Path, ".Justification.Vote.Value") && strings.HasSuffix(canon(fs.Store.Val), ".Vote.Value") && !strings.Contains(canon(fs.Store.Val), "Justification")
			r.Check(ok, "C13.R1", "inferJustificationVoteValue: justification value := the message's own value", p.c.InstrPos(fs.Store), fs.Path+" := "+canon(fs.Store.Val), "assigns "+canon(fs.Store.Val)+" to "+fs.Path)
		}
		if len(sts) == 0 {
			r.Undecided("C13.R1", "inferJustificationVoteValue: stores", "no store to Justification.Vote.Value")
		} else {
			want := map[string]bool{}
			for _, row := range p.specJustTable(false) {
				if strings.HasSuffix(row, ":msg") {
					want[strings.TrimSuffix(row, ":msg")] = true
				}
			}
			bad := 0
			for mp := int64(0); mp < 8; mp++ {
				for jp := int64(0); jp < 8; jp++ {
					inj := canonIs("", `^\$0\.GMessage\.Vote\.Phase$|^\$0\.Vote\.Phase$`, avInt(mp)).Match(inf)
					for k, v := range canonIs("", `\.Justification\.Vote\.Phase$`, avInt(jp)).Match(inf) {
						inj[k] = v
					}
					for k, v := range canonIs("", `\.Justification$`, avNonNil).Match(inf) {
						inj[k] = v
					}
					s := RunSCCP(inf, inj)
					got := false
					for _, st := range sts {
						if s.Reachable(st.Instr) {
							got = true
						}
					}
					key := fmt.Sprintf("%d:Phase>%d:Phase", mp, jp)
					r.Rows++
					if got != want[key] {
						bad++
						if bad <= 4 {
							r.Fail("C13.R1", "inferJustificationVoteValue: row "+key, p.c.Pos(inf.Pos()), fmt.Sprintf("inference restores the justification value: %v, validator table expects the message's own key there: %v", got, want[key]))
						}
					}
				}
			}
			if bad == 0 {
				r.OK("C13.R1", "inferJustificationVoteValue: inference table = rows of the validator table whose key is the message's", p.c.Pos(inf.Pos()), "64 rows")
			}
			// nil justification → no inference
			s := RunSCCP(inf, canonIs("", `\.Justification$`, avNil).Match(inf))
			for _, st := range sts {
				r.Check(!s.Reachable(st.Instr), "C13.R1", "inferJustificationVoteValue: no inference without a justification", p.c.InstrPos(st.Instr), "unreachable when nil", "dereferences/infers with a nil justification")
			}
		}
	}

	// ---------- R2
	if fv != nil {
		var acc []Sink
		for _, ret := range returnsOf(fv) {
			if canon(retValue(ret, 1)) == "nil" {
				acc = append(acc, Sink{ret, "accept"})
				v := retValue(ret, 0)
				ok := false
				if mi, isMI := v.(*ssa.MakeInterface); isMI {
					if a, isA := mi.X.(*ssa.Alloc); isA {
						if m := structStores(a)["msg"]; m != nil && strings.HasSuffix(canon(m), ".GMessage") {
							ok = true
						}
					}
				}
				r.Check(ok, "C13.R2", "FullyValidateMessage: accepted message is the completed message", p.c.InstrPos(ret), "validatedMessage{pmsg.GMessage}", "accepts "+canon(v))
			}
		}
		if len(acc) == 0 {
			r.Undecided("C13.R2", "FullyValidateMessage: accept", "no accepting return")
		} else {
			pm := `iface:PartiallyValidatedMessage\.PartialMessage\(\$2\)`
			keyZero := callResult("", "gpbft.ECChainKey.IsZero", "", -1, avTrue)
			mk := func(name string, vms ...VM) VM { u := union(vms...); u.Name = name; return u }
			justified := canonIs("", `^\(`+pm+`\.GMessage\.Justification != nil\)$|\.Justification != nil\)$`, avTrue)
			p.guarded("C13.R2", fv, acc,
				paramIs("non-nil input", 2, avNil),
				errFails("chain well-formed", "gpbft.ECChain.Validate", ""),
				cmpRel("announced key = key of the chain", `\.VoteValueKey$`, `^gpbft\.ECChain\.Key\(.*\.Vote\.Value\)$`, RelNE),
				errFails("still relevant", "gpbft.cachingValidator.validateByProgress", ""),
				mk("zero key ⇒ zero value", keyZero, callResult("", "gpbft.ECChain.IsZero", `^gpbft\.ECChain\.IsZero\(`+pm+`\.GMessage\.Vote\.Value\)$`, -1, avFalse)),
				mk("zero key ⇒ zero justification value", keyZero, justified, callResult("", "gpbft.ECChain.IsZero", `Justification\.Vote\.Value\)$`, -1, avFalse), callResult("", "gpbft.ECChain.IsZero", `^gpbft\.ECChain\.IsZero\(`+pm+`\.GMessage\.Vote\.Value\)$`, -1, avTrue)),
				mk("justification phase allowed", justified, canonIs("", `\.Justification\.Vote\.Phase\]#1$`, avFalse)),
				mk("message phase may be justified", justified, canonIs("", `\.Vote\.Phase\]#1$`, avFalse)),
				mk("justification is for the prescribed value", justified, callResult("", "gpbft.ECChain.Eq", "", -1, avFalse)),
			)
			for _, cs := range callsTo(fv, false, "gpbft.ECChain.Eq") {
				ok := strings.HasSuffix(cs.Arg(0), ".Justification.Vote.Value") && strings.Contains(cs.Arg(1), "[") && strings.HasSuffix(cs.Arg(1), "#0")
				r.Check(ok, "C13.R2", "FullyValidateMessage: compares the justification's value with the table's expected value", p.c.InstrPos(cs.Instr), cs.Arg(0)+" vs "+cs.Arg(1), "compares "+cs.Arg(0)+" with "+cs.Arg(1))
			}
			for _, cs := range callsTo(fv, false, "gpbft.ECChain.Validate") {
				r.Check(strings.HasSuffix(cs.Arg(0), ".GMessage.Vote.Value"), "C13.R2", "FullyValidateMessage: validates the completed chain", p.c.InstrPos(cs.Instr), cs.Arg(0), "validates "+cs.Arg(0))
			}
		}
	}

	// ---------- R3
	if tp := p.fn("C13.R3", "pmsg.PartialMessageManager.ToPartialGMessage"); tp != nil {
		var keySt, valSt, jvalSt []FieldStore
		keySt = fieldStores(tp, false, "PartialGMessage", "VoteValueKey")
		for _, fs := range fieldStores(tp, false, "Payload", "Value") {
			if strings.Contains(fs.Path, "Justification") || strings.Contains(fs.Path, "ustification") {
				jvalSt = append(jvalSt, fs)
			} else {
				valSt = append(valSt, fs)
			}
		}
		// classify Payload.Value stores by whether the address is inside a Justification copy
		valSt, jvalSt = nil, nil
		for _, fs := range fieldStores(tp, false, "Payload", "Value") {
			fa := fs.Store.Addr.(*ssa.FieldAddr)
			inJ := false
			if inner, ok := fa.X.(*ssa.FieldAddr); ok && typeBase(inner.X.Type()) == "Justification" {
				inJ = true
			}
			if inJ {
				jvalSt = append(jvalSt, fs)
			} else {
				valSt = append(valSt, fs)
			}
		}
		if len(keySt) != 1 || len(valSt) != 1 || len(jvalSt) != 1 {
			r.Undecided("C13.R3", "ToPartialGMessage: stores", fmt.Sprintf("key=%d value=%d justification value=%d", len(keySt), len(valSt), len(jvalSt)))
		} else {
			r.Check(strings.HasPrefix(canon(keySt[0].Store.Val), "gpbft.ECChain.Key(") && strings.HasSuffix(canon(keySt[0].Store.Val), ".Vote.Value)"), "C13.R3", "ToPartialGMessage: announced key := key of the vote value", p.c.InstrPos(keySt[0].Store), canon(keySt[0].Store.Val), "key := "+canon(keySt[0].Store.Val))
			r.Check(isFreshZero(valSt[0].Store.Val) && isFreshZero(jvalSt[0].Store.Val), "C13.R3", "ToPartialGMessage: stripped values are the zero chain", p.c.InstrPos(valSt[0].Store), "zero", "stripped to a non-zero value")
			p.before("C13.R3", tp, "key computed", []Sink{{keySt[0].Store, "key"}}, "value stripped", []Sink{{valSt[0].Store, "strip"}})
			nz := callResult("vote value non-zero", "gpbft.ECChain.IsZero", `\.Vote\.Value\)$`, -1, avTrue)
			p.guardedAfter("C13.R3", tp, []Sink{{keySt[0].Store, "key set"}, {valSt[0].Store, "value stripped"}}, nz)
			// strips only copies: the address roots are fresh allocs, not the parameter
			for _, fs := range append(append([]FieldStore{}, valSt...), jvalSt...) {
				r.Check(!strings.HasPrefix(fs.Path, "$1.") && !strings.HasPrefix(fs.Path, "$1.Justification"), "C13.R3", "ToPartialGMessage: works on a copy of the message", p.c.InstrPos(fs.Store), fs.Path, "mutates the caller's message: "+fs.Path)
			}
			// the justification copy is what the partial message points to
			jst := fieldStores(tp, false, "GMessage", "Justification")
			r.Check(len(jst) == 1, "C13.R3", "ToPartialGMessage: partial message gets its own justification copy", p.c.Pos(tp.Pos()), "one store", fmt.Sprintf("%d stores to Justification", len(jst)))
		}
	}

	// ---------- R4
	if cm := p.fn("C13.R4", "pmsg.PartialMessageManager.CompleteMessage"); cm != nil {
		g := callsTo(cm, false, "chainexchange.PubSubChainExchange.GetChainByInstance")
		if len(g) != 1 {
			r.Undecided("C13.R4", "CompleteMessage: lookup", fmt.Sprintf("expected one GetChainByInstance call, found %d", len(g)))
		} else {
			r.Check(strings.HasSuffix(g[0].Arg(2), "$2.GMessage.Vote.Instance") && g[0].Arg(3) == "$2.VoteValueKey", "C13.R4", "CompleteMessage: chain looked up by (message instance, announced key)", p.c.InstrPos(g[0].Instr), g[0].Arg(2)+", "+g[0].Arg(3), "looked up by "+g[0].Arg(2)+", "+g[0].Arg(3))
			sts := fieldStores(cm, false, "Payload", "Value")
			ok := len(sts) == 1 && strings.HasPrefix(canon(sts[0].Store.Val), "chainexchange.PubSubChainExchange.GetChainByInstance(") && strings.HasSuffix(canon(sts[0].Store.Val), "#0")
			r.Check(ok, "C13.R4", "CompleteMessage: vote value := the chain found for that key", p.c.Pos(cm.Pos()), "Vote.Value = chain", "vote value not set from the lookup")
			inf := callSinks(cm, "justification inference", "pmsg.inferJustificationVoteValue")
			if len(sts) == 1 {
				p.before("C13.R4", cm, "value set", []Sink{{sts[0].Store, "value set"}}, "justification inference", inf)
			}
			var okRet []Sink
			for _, ret := range returnsOf(cm) {
				if canon(retValue(ret, 1)) == "true" {
					okRet = append(okRet, Sink{ret, "completed"})
				}
			}
			nf := union(callResult("", "chainexchange.PubSubChainExchange.GetChainByInstance", "", 1, avFalse), callResult("", "gpbft.ECChainKey.IsZero", "", -1, avFalse))
			nf.Name = "chain found (or nothing to complete)"
			p.guarded("C13.R4", cm, okRet, nf)
		}
	}
	if vp := p.fn("C13.R4", "f3.gpbftRunner.validatePubsubMessage"); vp != nil {
		cmC := callsTo(vp, false, "pmsg.PartialMessageManager.CompleteMessage")
		vm := callSinks(vp, "one-shot validation", "gpbft.Participant.ValidateMessage")
		pv := callSinks(vp, "partial validation", "gpbft.Participant.PartiallyValidateMessage")
		r.Check(len(cmC) == 1 && len(vm) == 1 && len(pv) == 1, "C13.R4", "host: incoming messages are completed, then validated one-shot or partially", p.c.Pos(vp.Pos()), "CompleteMessage, ValidateMessage, PartiallyValidateMessage", "routing changed")
		if len(cmC) == 1 && len(vm) == 1 && len(pv) == 1 {
			p.guarded("C13.R4", vp, vm, callResult("completed", "pmsg.PartialMessageManager.CompleteMessage", "", 1, avFalse))
			p.guarded("C13.R4", vp, pv, callResult("not completed", "pmsg.PartialMessageManager.CompleteMessage", "", 1, avTrue))
			for _, cs := range callsTo(vp, false, "gpbft.Participant.ValidateMessage") {
				r.Check(strings.HasSuffix(cs.Arg(2), "CompleteMessage($0.pmm, $1, alloc2:gpbft.PartialGMessage)#0") || strings.Contains(cs.Arg(2), "CompleteMessage("), "C13.R4", "host: the completed message is what gets validated", p.c.InstrPos(cs.Instr), cs.Arg(2), "validates "+cs.Arg(2))
			}
			// accept data only on Accept
			var vd []Sink
			for _, fs := range fieldStores(vp, false, "Message", "ValidatorData") {
				vd = append(vd, Sink{fs.Store, "message handed on"})
			}
			acceptC := fmt.Sprintf("%d:ValidationResult", p.constValue("github.com/libp2p/go-libp2p-pubsub", "ValidationAccept"))
			p.guarded("C13.R4", vp, vd, cmpRel("validation verdict is Accept", `^f3\.pubsubValidationResultFromError\(`, `^`+acceptC+`$`, RelNE))
		}
	}
	// buffered partial messages: FullyValidateMessage before delivery
	nFull := 0
	for _, f := range p.c.ProdFuncs() {
		if !strings.HasPrefix(funcName(f), "f3.gpbftRunner.") {
			continue
		}
		for _, cs := range callsTo(f, false, "gpbft.Participant.FullyValidateMessage") {
			nFull++
			r.OK("C13.R4", "host: buffered partial messages go through FullyValidateMessage in "+funcName(f), p.c.InstrPos(cs.Instr), "present")
		}
	}
	if nFull == 0 {
		r.Fail("C13.R4", "host: buffered partial messages go through FullyValidateMessage", "", "no call to FullyValidateMessage in the runner")
	}
	if pf := p.fn("C13.R4", "f3.pubsubValidationResultFromError"); pf != nil {
		acceptC := fmt.Sprintf("%d:ValidationResult", p.constValue("github.com/libp2p/go-libp2p-pubsub", "ValidationAccept"))
		p.guarded("C13.R4", pf, constReturns(pf, 0, acceptC), paramIs("no error", 0, avNonNil))
	}

	// ---------- R5
	if m := p.fn("C13.R5", "gpbft.Payload.MarshalForSigning"); m != nil {
		cs := callsTo(m, false, "gpbft.Payload.MarshalForSigningWithValueKey")
		ok := len(cs) == 1 && cs[0].Arg(0) == "$0" && cs[0].Arg(1) == "$1" && cs[0].Arg(2) == "gpbft.ECChain.Key($0.Value)"
		r.Check(ok, "C13.R5", "MarshalForSigning delegates to MarshalForSigningWithValueKey(network, Value.Key())", p.c.Pos(m.Pos()), "delegates", "full and partial signing payloads are produced by different code")
		for _, ret := range returnsOf(m) {
			r.Check(strings.HasPrefix(canon(retValue(ret, 0)), "gpbft.Payload.MarshalForSigningWithValueKey("), "C13.R5", "MarshalForSigning returns the delegate's bytes unchanged", p.c.InstrPos(ret), canon(retValue(ret, 0)), "returns "+canon(retValue(ret, 0)))
		}
	}
}
