package main

import (
	"fmt"
	"go/token"
	"strings"

	"golang.org/x/tools/go/ssa"
)

// Rules added after the third independent seeding round ("less obvious sites").

// gHandleDecisionAlarm: once the instance has terminated, handleDecision always re-programs the host alarm
// (cancel on a failed hand-over, next start otherwise). A stale phase/rebroadcast alarm would otherwise
// re-enter beginInstance for the instance just decided: progress moves backwards and QUALITY is sent again.
func (p *P) gHandleDecisionAlarm(rule string) {
	r := p.r
	hd := p.fn(rule, "gpbft.Participant.handleDecision")
	if hd == nil {
		return
	}
	fin := callsTo(hd, false, "gpbft.Participant.finishCurrentInstance")
	alarms := callSinks(hd, "alarm programmed", "iface:Host.SetAlarm")
	if len(fin) != 1 || len(alarms) == 0 {
		r.Undecided(rule, "handleDecision: alarm re-programmed after a decision", fmt.Sprintf("finish calls %d, SetAlarm calls %d", len(fin), len(alarms)))
		return
	}
	var via []ssa.Instruction
	for _, a := range alarms {
		via = append(via, a.Instr)
	}
	s := RunSCCP(hd, nil)
	bad := ""
	for _, ret := range returnsOf(hd) {
		if s.Reachable(ret) && s.reachableAfter(fin[0].Instr, ret) && reachAvoiding(s, fin[0].Instr, ret, via) {
			bad = "return at " + p.c.InstrPos(ret) + " is reachable after the decision was taken without any SetAlarm"
		}
	}
	r.Check(bad == "", rule, "handleDecision: alarm re-programmed after a decision on every path", p.c.Pos(hd.Pos()), "SetAlarm (cancel or next start) before every return", bad+" — a pending alarm of the finished instance would restart it (progress backwards, second QUALITY for the same slot)")
}

// gPowerStoreBase: the power store (the EC backend a running node hands to consensus inputs) anchors the
// certificate-derived table at the HEAD finalized by the look-back certificate, like GetCommittee does.
func (p *P) gPowerStoreBase(rule string) {
	r := p.r
	fn := p.fn(rule, "internal/powerstore.Store.f3PowerBase")
	if fn == nil {
		return
	}
	n := 0
	okHead, okBoot := false, false
	bad := ""
	var all []string
	for _, ret := range returnsOf(fn) {
		if len(ret.Results) != 3 || canon(ret.Results[2]) != "nil" {
			continue
		}
		n++
		for _, a := range splitAlternatives(canon(ret.Results[0])) {
			all = append(all, a)
			switch {
			case a == "($0.manifest.BootstrapEpoch - $0.manifest.EC.Finality)":
				okBoot = true
			case strings.HasPrefix(a, "gpbft.ECChain.Head(certstore.Store.Get($0.cs, $1, ") && strings.HasSuffix(a, ".ECChain).Epoch"):
				okHead = true
			default:
				bad = a
			}
		}
	}
	if n == 0 {
		r.Undecided(rule, "powerstore.f3PowerBase: base epoch", "no successful return found")
	} else {
		r.Check(okHead && okBoot && bad == "", rule, "powerstore.f3PowerBase: base epoch = epoch of the HEAD finalized by the look-back certificate (bootstrap epoch − finality before that)", p.c.Pos(fn.Pos()), strings.Join(uniq(all), " | "), "base epoch is "+strings.Join(uniq(all), " | ")+" — disagrees with the committee rule of GetCommittee (head of certificate instance − Lookback)")
	}
	for _, cs := range callsTo(fn, false, "certstore.Store.Get") {
		l := renameLin(linOf(cs.ArgValues()[2]), func(s string) string {
			switch s {
			case "certstore.Store.Latest($0.cs).GPBFTInstance":
				return "latest"
			case "$0.manifest.CommitteeLookback":
				return "Lookback"
			}
			return s
		})
		r.Check(l.equal(Lin{C: 1, T: map[string]int64{"latest": 1, "Lookback": -1}}), rule, "powerstore.f3PowerBase: look-back certificate = (latest + 1) − Lookback", p.c.InstrPos(cs.Instr), l.String(), "certificate "+l.String())
	}
}

// gImportCheckpointAfterDelta: in the snapshot import loop the checkpoint gate for instance k+1 is evaluated
// right after certificate k's delta was applied — not after the next block was read (the table for latest+1
// would never be written when the snapshot ends just before a checkpoint).
func (p *P) gImportCheckpointAfterDelta(rule string) {
	r := p.r
	imp := p.fn(rule, "certstore.importSnapshotToDatastoreWithTestingPowerTableFrequency")
	if imp == nil {
		return
	}
	apps := callsTo(imp, false, "certs.ApplyPowerTableDiffsToMap")
	var reads []ssa.Instruction
	for _, cs := range callsTo(imp, false, "certstore.readSnapshotBlockBytes") {
		reads = append(reads, cs.Instr)
	}
	var gates []ssa.Instruction
	for _, in := range instrsOf(imp) {
		iff, ok := in.(*ssa.If)
		if !ok {
			continue
		}
		if cmp, ok := iff.Cond.(*ssa.BinOp); ok && (cmp.Op == token.EQL || cmp.Op == token.NEQ) {
			if rem, ok := cmp.X.(*ssa.BinOp); ok && rem.Op == token.REM && strings.HasSuffix(canon(rem.Y), ".powerTableFrequency") {
				gates = append(gates, iff)
			}
		}
	}
	if len(apps) != 1 || len(gates) == 0 || len(reads) == 0 {
		r.Undecided(rule, "import: checkpoint gate follows the delta application", fmt.Sprintf("delta applications %d, gates %d, block reads %d", len(apps), len(gates), len(reads)))
		return
	}
	s := RunSCCP(imp, nil)
	ok := false
	for _, g := range gates {
		if reachAvoiding(s, apps[0].Instr, g, reads) {
			ok = true
		}
	}
	r.Check(ok, rule, "import: checkpoint gate follows the delta application within the same iteration", p.c.InstrPos(apps[0].Instr), "gate reachable from the delta application without reading the next block", "the checkpoint gate is only reached after the next block has been read — when the snapshot ends just before a checkpoint instance its power table is never stored, and the imported store cannot be opened")
}

// gOptionStores: option setters that carry a meaningful zero store the given value unconditionally.
func (p *P) gOptionStores(rule string) {
	r := p.r
	for _, o := range []struct{ fn, field string }{{"chainexchange.WithMaxInstanceLookahead$1", "maxInstanceLookahead"}} {
		fn := p.fn(rule, o.fn)
		if fn == nil {
			continue
		}
		var sts []Sink
		for _, fs := range fieldStores(fn, false, "options", o.field) {
			sts = append(sts, Sink{fs.Store, "option stored"})
			r.Check(strings.HasPrefix(canon(fs.Store.Val), "$^0") || canon(fs.Store.Val) == "^lookahead", rule, o.fn+": stores the given value", p.c.InstrPos(fs.Store), canon(fs.Store.Val), "stores "+canon(fs.Store.Val))
		}
		var rets []Sink
		for _, ret := range okReturns(fn) {
			rets = append(rets, ret)
		}
		p.before(rule, fn, "option stored", sts, "success", rets)
	}
}

// gPrefixLoopAlwaysRuns: nothing returns before the per-prefix caching loop (an "already cached" shortcut on the
// full chain would stop re-broadcasts from restoring evicted prefixes).
func (p *P) gPrefixLoopAlwaysRuns(rule string) {
	for _, name := range []string{"chainexchange.PubSubChainExchange.cacheAsWantedChain", "chainexchange.PubSubChainExchange.cacheAsDiscoveredChain"} {
		fn := p.fn(rule, name)
		if fn == nil {
			continue
		}
		var rets []Sink
		for _, ret := range returnsOf(fn) {
			if ret.Block() == fn.Recover {
				continue
			}
			rets = append(rets, Sink{ret, "return"})
		}
		p.before(rule, fn, "prefix enumeration", callSinks(fn, "prefix enumeration", "gpbft.ECChain.AllPrefixes"), "return", rets)
	}
}

// gPollStatusTable: each poll outcome is booked under its own tracker method.
func (p *P) gPollStatusTable(rule string) {
	r := p.r
	fn := p.fn(rule, "certexchange/polling.Subscriber.poll")
	if fn == nil {
		return
	}
	status := p.c.Pkg("certexchange/polling")
	val := func(name string) int64 {
		if status == nil || status.Types == nil {
			return -1
		}
		return constInt(status.Types.Scope().Lookup(name))
	}
	want := map[string]string{"PollFailed": "certexchange/polling.peerTracker.recordFailure", "PollIllegal": "certexchange/polling.peerTracker.recordInvalid"}
	for st, callee := range want {
		k := val(st)
		calls := callSinks(fn, "booked", callee)
		if len(calls) == 0 {
			r.Fail(rule, "Subscriber.poll: "+st+" is booked with "+callee[strings.LastIndex(callee, ".")+1:], p.c.Pos(fn.Pos()), "no call to "+callee)
			continue
		}
		// under "status == st" the call is reachable, and under every other status it is not
		all := []string{"PollMiss", "PollHit", "PollFailed", "PollIllegal"}
		okAll := true
		for _, other := range all {
			inj := map[ssa.Value]AV{}
			allValues(fn, func(v ssa.Value) {
				if strings.HasSuffix(canon(v), ".Status") {
					if _, isAddr := v.(*ssa.FieldAddr); !isAddr {
						inj[v] = avInt(val(other))
					}
				}
			})
			if len(inj) == 0 {
				okAll = false
				break
			}
			s := RunSCCP(fn, inj)
			reach := false
			for _, c := range calls {
				if s.Reachable(c.Instr) {
					reach = true
				}
			}
			if reach != (other == st) {
				okAll = false
			}
		}
		_ = k
		r.Check(okAll, rule, "Subscriber.poll: "+st+" (and only it) is booked with "+callee[strings.LastIndex(callee, ".")+1:], p.c.InstrPos(calls[0].Instr), "reachable exactly for that status", "the tracker method for "+st+" is reached for another status or not for "+st+" — failing peers are never backed off")
	}
}
