package main

import (
	"sort"
	"strings"

	"golang.org/x/tools/go/ssa"
)

// MapEntry is one constant-keyed entry of a map literal as lowered to SSA.
type MapEntry struct {
	Key    string            // canonical constant key, e.g. "4:Phase"
	Inner  []MapEntry        // when the value is itself a map literal
	Fields map[string]ssa.Value // when the value is a struct literal: field → stored value
	Val    ssa.Value         // the raw value otherwise
}

// mapLiteral reconstructs the entries written into the map created by mk
// (MapUpdate instructions on it in the same function).
func mapLiteral(mk ssa.Value) []MapEntry {
	var out []MapEntry
	for _, r := range *mk.Referrers() {
		mu, ok := r.(*ssa.MapUpdate)
		if !ok || mu.Map != mk {
			continue
		}
		e := MapEntry{Key: canon(mu.Key), Val: mu.Value}
		switch v := mu.Value.(type) {
		case *ssa.MakeMap:
			e.Inner = mapLiteral(v)
		case *ssa.UnOp:
			if a, ok := v.X.(*ssa.Alloc); ok {
				e.Fields = structStores(a)
			}
		}
		out = append(out, e)
	}
	sort.Slice(out, func(i, j int) bool { return out[i].Key < out[j].Key })
	return out
}

// structStores: field name → value stored into the struct alloc.
func structStores(a *ssa.Alloc) map[string]ssa.Value {
	m := map[string]ssa.Value{}
	for _, r := range *a.Referrers() {
		fa, ok := r.(*ssa.FieldAddr)
		if !ok {
			continue
		}
		for _, rr := range *fa.Referrers() {
			if st, ok := rr.(*ssa.Store); ok && st.Addr == fa {
				m[fieldName(fa.X.Type(), fa.Field)] = st.Val
			}
		}
	}
	return m
}

// findMakeMap returns the MakeMap of the given (short) type string in fn.
func findMakeMaps(fn *ssa.Function, typeSubstr string) []*ssa.MakeMap {
	var out []*ssa.MakeMap
	for _, b := range fn.Blocks {
		for _, in := range b.Instrs {
			if mk, ok := in.(*ssa.MakeMap); ok && strings.Contains(shortType(mk.Type()), typeSubstr) {
				out = append(out, mk)
			}
		}
	}
	return out
}

// isFreshZero: v is the address of a freshly allocated zero value (alloc with no stores).
func isFreshZero(v ssa.Value) bool {
	a, ok := v.(*ssa.Alloc)
	if !ok {
		return false
	}
	for _, r := range *a.Referrers() {
		switch r := r.(type) {
		case *ssa.Store:
			if r.Addr == a {
				return false
			}
		case *ssa.FieldAddr, *ssa.IndexAddr:
			for _, rr := range *r.(ssa.Value).Referrers() {
				if _, ok := rr.(*ssa.Store); ok {
					return false
				}
			}
		}
	}
	return true
}
