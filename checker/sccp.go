package main

import (
	"go/constant"
	"go/token"
	"go/types"

	"golang.org/x/tools/go/ssa"
)

// Sparse conditional constant propagation over one SSA function with
// *injected* abstract values. A rule binds designated SSA values (the result of
// a guard call, a comparison, a field load) to an abstract value — e.g. "this
// error is non-nil", "this comparison is false" — and asks which instructions
// remain reachable. Nothing is executed: it is a static abstract
// interpretation over the lattice ⊥ < {const c, nil, non-nil} < ⊤.

type AVKind int

const (
	Bot AVKind = iota
	Cst
	NilV
	NonNil
	Top
)

type AV struct {
	K AVKind
	C constant.Value
}

var (
	avTop    = AV{K: Top}
	avTrue   = AV{K: Cst, C: constant.MakeBool(true)}
	avFalse  = AV{K: Cst, C: constant.MakeBool(false)}
	avNil    = AV{K: NilV}
	avNonNil = AV{K: NonNil}
)

func avBool(b bool) AV {
	if b {
		return avTrue
	}
	return avFalse
}

func avInt(i int64) AV { return AV{K: Cst, C: constant.MakeInt64(i)} }

func (a AV) eq(b AV) bool {
	if a.K != b.K {
		return false
	}
	if a.K == Cst {
		return constant.Compare(a.C, token.EQL, b.C)
	}
	return true
}

func join(a, b AV) AV {
	if a.K == Bot {
		return b
	}
	if b.K == Bot {
		return a
	}
	if a.K == Top || b.K == Top {
		return avTop
	}
	if a.K == b.K {
		if a.K != Cst {
			return a
		}
		if a.C.Kind() == b.C.Kind() && constant.Compare(a.C, token.EQL, b.C) {
			return a
		}
	}
	return avTop
}

func (a AV) String() string {
	switch a.K {
	case Bot:
		return "⊥"
	case Cst:
		return a.C.ExactString()
	case NilV:
		return "nil"
	case NonNil:
		return "non-nil"
	}
	return "⊤"
}

type SCCP struct {
	fn     *ssa.Function
	inject map[ssa.Value]AV
	val    map[ssa.Value]AV
	edge   map[[2]int]bool
	reach  []bool
}

func nillable(t types.Type) bool {
	switch t.Underlying().(type) {
	case *types.Pointer, *types.Interface, *types.Slice, *types.Map, *types.Chan, *types.Signature:
		return true
	}
	return false
}

func RunSCCP(fn *ssa.Function, inject map[ssa.Value]AV) *SCCP {
	s := &SCCP{fn: fn, inject: inject, val: map[ssa.Value]AV{}, edge: map[[2]int]bool{}, reach: make([]bool, len(fn.Blocks))}
	if len(fn.Blocks) == 0 {
		return s
	}
	s.reach[0] = true
	for iter := 0; iter < 10000; iter++ {
		changed := false
		for _, b := range fn.Blocks {
			if !s.reach[b.Index] {
				continue
			}
			for _, in := range b.Instrs {
				if v, ok := in.(ssa.Value); ok {
					nv := s.evalInstr(v, b)
					if old := s.val[v]; !old.eq(nv) {
						// monotone: only move up
						j := join(old, nv)
						if !old.eq(j) {
							s.val[v] = j
							changed = true
						}
					}
				}
				switch t := in.(type) {
				case *ssa.If:
					c := s.get(t.Cond)
					mark := func(i int) {
						to := b.Succs[i].Index
						k := [2]int{b.Index, to}
						if !s.edge[k] {
							s.edge[k] = true
							changed = true
						}
						if !s.reach[to] {
							s.reach[to] = true
							changed = true
						}
					}
					switch {
					case c.K == Cst && c.C.Kind() == constant.Bool:
						if constant.BoolVal(c.C) {
							mark(0)
						} else {
							mark(1)
						}
					case c.K == Bot:
					default:
						mark(0)
						mark(1)
					}
				case *ssa.Jump:
					to := b.Succs[0].Index
					k := [2]int{b.Index, to}
					if !s.edge[k] {
						s.edge[k] = true
						changed = true
					}
					if !s.reach[to] {
						s.reach[to] = true
						changed = true
					}
				}
			}
		}
		if !changed {
			break
		}
	}
	return s
}

func (s *SCCP) get(v ssa.Value) AV {
	if av, ok := s.inject[v]; ok {
		return av
	}
	switch x := v.(type) {
	case *ssa.Const:
		if x.Value == nil {
			if nillable(x.Type()) {
				return avNil
			}
			return avTop
		}
		return AV{K: Cst, C: x.Value}
	case *ssa.Function, *ssa.Global, *ssa.Builtin:
		return avNonNil
	case *ssa.Parameter, *ssa.FreeVar:
		return avTop
	}
	if av, ok := s.val[v]; ok {
		return av
	}
	return AV{K: Bot}
}

func (s *SCCP) evalInstr(v ssa.Value, b *ssa.BasicBlock) AV {
	if av, ok := s.inject[v]; ok {
		return av
	}
	switch x := v.(type) {
	case *ssa.Phi:
		out := AV{K: Bot}
		for i, p := range b.Preds {
			if s.edge[[2]int{p.Index, b.Index}] {
				out = join(out, s.get(x.Edges[i]))
			}
		}
		return out
	case *ssa.BinOp:
		return evalBin(x.Op, s.get(x.X), s.get(x.Y))
	case *ssa.UnOp:
		a := s.get(x.X)
		if a.K == Bot {
			return a
		}
		switch x.Op {
		case token.NOT:
			if a.K == Cst && a.C.Kind() == constant.Bool {
				return avBool(!constant.BoolVal(a.C))
			}
		case token.SUB:
			if a.K == Cst && a.C.Kind() == constant.Int {
				return AV{K: Cst, C: constant.UnaryOp(token.SUB, a.C, 0)}
			}
		}
		return avTop
	case *ssa.ChangeType:
		return s.get(x.X)
	case *ssa.ChangeInterface:
		return s.get(x.X)
	case *ssa.Convert:
		a := s.get(x.X)
		if a.K == Cst && a.C.Kind() == constant.Int {
			if bt, ok := x.Type().Underlying().(*types.Basic); ok && bt.Info()&types.IsInteger != 0 {
				return a
			}
		}
		if a.K == Bot {
			return a
		}
		return avTop
	case *ssa.MakeInterface, *ssa.Alloc, *ssa.MakeMap, *ssa.MakeSlice, *ssa.MakeChan, *ssa.MakeClosure, *ssa.FieldAddr, *ssa.IndexAddr:
		return avNonNil
	}
	return avTop
}

func evalBin(op token.Token, a, b AV) AV {
	if a.K == Bot || b.K == Bot {
		return AV{K: Bot}
	}
	switch op {
	case token.EQL, token.NEQ:
		eq, known := false, false
		switch {
		case a.K == NilV && b.K == NilV:
			eq, known = true, true
		case (a.K == NilV && b.K == NonNil) || (a.K == NonNil && b.K == NilV):
			eq, known = false, true
		case a.K == Cst && b.K == Cst && a.C.Kind() == b.C.Kind():
			eq, known = constant.Compare(a.C, token.EQL, b.C), true
		}
		if known {
			if op == token.NEQ {
				eq = !eq
			}
			return avBool(eq)
		}
		return avTop
	case token.LSS, token.LEQ, token.GTR, token.GEQ:
		if a.K == Cst && b.K == Cst && a.C.Kind() == b.C.Kind() && a.C.Kind() != constant.Bool {
			return avBool(constant.Compare(a.C, op, b.C))
		}
		return avTop
	case token.ADD, token.SUB, token.MUL:
		if a.K == Cst && b.K == Cst && a.C.Kind() == constant.Int && b.C.Kind() == constant.Int {
			return AV{K: Cst, C: constant.BinaryOp(a.C, op, b.C)}
		}
		return avTop
	}
	return avTop
}

func (s *SCCP) BlockReachable(b *ssa.BasicBlock) bool { return s.reach[b.Index] }

func (s *SCCP) Reachable(in ssa.Instruction) bool {
	b := in.Block()
	if b == nil || b.Parent() != s.fn {
		return false
	}
	return s.reach[b.Index]
}

// reachableAfter: along executable edges, can control flow from just after a reach b?
func (s *SCCP) reachableAfter(a, b ssa.Instruction) bool {
	if a.Block() == b.Block() && instrIndex(a) < instrIndex(b) {
		return true
	}
	seen := map[int]bool{}
	q := []int{}
	for _, su := range a.Block().Succs {
		if s.edge[[2]int{a.Block().Index, su.Index}] {
			q = append(q, su.Index)
		}
	}
	for len(q) > 0 {
		cur := q[0]
		q = q[1:]
		if seen[cur] {
			continue
		}
		seen[cur] = true
		if cur == b.Block().Index {
			return true
		}
		for _, su := range s.fn.Blocks[cur].Succs {
			if s.edge[[2]int{cur, su.Index}] {
				q = append(q, su.Index)
			}
		}
	}
	return false
}

// Path returns one executable block path from the entry to b (for witnesses).
func (s *SCCP) Path(b *ssa.BasicBlock) []*ssa.BasicBlock {
	prev := map[int]int{0: -1}
	q := []int{0}
	for len(q) > 0 {
		cur := q[0]
		q = q[1:]
		if cur == b.Index {
			break
		}
		for _, su := range s.fn.Blocks[cur].Succs {
			if s.edge[[2]int{cur, su.Index}] {
				if _, ok := prev[su.Index]; !ok {
					prev[su.Index] = cur
					q = append(q, su.Index)
				}
			}
		}
	}
	if _, ok := prev[b.Index]; !ok {
		return nil
	}
	var rev []*ssa.BasicBlock
	for i := b.Index; i >= 0; i = prev[i] {
		rev = append(rev, s.fn.Blocks[i])
	}
	for i, j := 0, len(rev)-1; i < j; i, j = i+1, j-1 {
		rev[i], rev[j] = rev[j], rev[i]
	}
	return rev
}

// ---- graph helpers on the plain CFG ----

func instrIndex(in ssa.Instruction) int {
	for i, x := range in.Block().Instrs {
		if x == in {
			return i
		}
	}
	return -1
}

// dominates reports whether a executes before b on every path reaching b.
func dominates(a, b ssa.Instruction) bool {
	if a.Parent() != b.Parent() {
		return false
	}
	if a.Block() == b.Block() {
		return instrIndex(a) < instrIndex(b)
	}
	return a.Block().Dominates(b.Block())
}

// reachableFrom: can control flow from just after instruction a reach instruction b?
func reachableFrom(a, b ssa.Instruction) bool {
	if a.Parent() != b.Parent() {
		return false
	}
	if a.Block() == b.Block() && instrIndex(a) < instrIndex(b) {
		return true
	}
	seen := map[int]bool{}
	var q []*ssa.BasicBlock
	q = append(q, a.Block().Succs...)
	for len(q) > 0 {
		cur := q[0]
		q = q[1:]
		if seen[cur.Index] {
			continue
		}
		seen[cur.Index] = true
		if cur == b.Block() {
			return true
		}
		q = append(q, cur.Succs...)
	}
	return false
}

// inLoop reports whether the instruction's block lies on a CFG cycle.
func inLoop(in ssa.Instruction) bool {
	b := in.Block()
	seen := map[int]bool{}
	q := append([]*ssa.BasicBlock{}, b.Succs...)
	for len(q) > 0 {
		cur := q[0]
		q = q[1:]
		if cur == b {
			return true
		}
		if seen[cur.Index] {
			continue
		}
		seen[cur.Index] = true
		q = append(q, cur.Succs...)
	}
	return false
}
