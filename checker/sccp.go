package main

import (
	"go/constant"
	"go/token"
	"go/types"

	"golang.org/x/tools/go/ssa"
)

// Sparse conditional constant propagation over one SSA function with
// *injected* abstract values. A rule binds designated SSA values (the result of
// a guard call, a comparison, a field load) to an abstract value — e.g. "this
// error is non-nil", "this comparison is false" — and asks which instructions
// remain reachable. Nothing is executed: it is a static abstract
// interpretation over the lattice ⊥ < {const c, nil, non-nil} < ⊤.

type AVKind int

const (
	Bot AVKind = iota
	Cst
	NilV
	NonNil
	Top
)

type AV struct {
	K AVKind
	C constant.Value
}

var (
	avTop    = AV{K: Top}
	avTrue   = AV{K: Cst, C: constant.MakeBool(true)}
	avFalse  = AV{K: Cst, C: constant.MakeBool(false)}
	avNil    = AV{K: NilV}
	avNonNil = AV{K: NonNil}
)

func avBool(b bool) AV {
	if b {
		return avTrue
	}
	return avFalse
}

func avInt(i int64) AV { return AV{K: Cst, C: constant.MakeInt64(i)} }

func (a AV) eq(b AV) bool {
	if a.K != b.K {
		return false
	}
	if a.K == Cst {
		return constant.Compare(a.C, token.EQL, b.C)
	}
	return true
}

func join(a, b AV) AV {
	if a.K == Bot {
		return b
	}
	if b.K == Bot {
		return a
	}
	if a.K == Top || b.K == Top {
		return avTop
	}
	if a.K == b.K {
		if a.K != Cst {
			return a
		}
		if a.C.Kind() == b.C.Kind() && constant.Compare(a.C, token.EQL, b.C) {
			return a
		}
	}
	return avTop
}

func (a AV) String() string {
	switch a.K {
	case Bot:
		return "⊥"
	case Cst:
		return a.C.ExactString()
	case NilV:
		return "nil"
	case NonNil:
		return "non-nil"
	}
	return "⊤"
}

type SCCP struct {
	fn     *ssa.Function
	vf     *VFunc
	inject map[ssa.Value]AV
	val    map[ssa.Value]AV
	tuple  map[*ssa.Call][]AV // per-result values of inlined helper calls
	edge   map[[2]int]bool
	reach  []bool
}

func nillable(t types.Type) bool {
	switch t.Underlying().(type) {
	case *types.Pointer, *types.Interface, *types.Slice, *types.Map, *types.Chan, *types.Signature:
		return true
	}
	return false
}

// sccpRetFilter: while set, the value of a call to a spliced helper is the join over the listed
// returns only (used by guardedAfter to follow the activation in which the guard failed).
var sccpRetFilter = map[*ssa.Function]map[*ssa.Return]bool{}

func RunSCCP(fn *ssa.Function, inject map[ssa.Value]AV) *SCCP {
	vf := vfuncOf(fn)
	s := &SCCP{fn: fn, vf: vf, inject: inject, val: map[ssa.Value]AV{}, tuple: map[*ssa.Call][]AV{}, edge: map[[2]int]bool{}, reach: make([]bool, len(vf.Nodes))}
	if vf.Entry == nil {
		return s
	}
	// when fn is itself a helper inspected directly, start at its own entry
	entry := vf.Entry
	if rootOf(fn) != fn && len(fn.Blocks) > 0 {
		entry = vf.first[fn.Blocks[0]]
	}
	s.reach[entry.Idx] = true
	mark := func(from, to *VNode, changed *bool) {
		k := [2]int{from.Idx, to.Idx}
		if !s.edge[k] {
			s.edge[k] = true
			*changed = true
		}
		if !s.reach[to.Idx] {
			s.reach[to.Idx] = true
			*changed = true
		}
	}
	for iter := 0; iter < 10000; iter++ {
		changed := false
		for _, n := range vf.Nodes {
			if !s.reach[n.Idx] {
				continue
			}
			terminated := false
			for _, in := range n.Instrs {
				if v, ok := in.(ssa.Value); ok {
					nv := s.evalInstr(v, n)
					if old := s.val[v]; !old.eq(nv) {
						j := join(old, nv)
						if !old.eq(j) {
							s.val[v] = j
							changed = true
						}
					}
				}
				switch t := in.(type) {
				case *ssa.If:
					terminated = true
					c := s.get(t.Cond)
					switch {
					case c.K == Cst && c.C.Kind() == constant.Bool:
						if constant.BoolVal(c.C) {
							mark(n, n.Succs[0], &changed)
						} else {
							mark(n, n.Succs[1], &changed)
						}
					case c.K == Bot:
					default:
						mark(n, n.Succs[0], &changed)
						mark(n, n.Succs[1], &changed)
					}
				case *ssa.Jump:
					terminated = true
					mark(n, n.Succs[0], &changed)
				case *ssa.Return:
					terminated = true
					for _, su := range n.Succs { // helper return → continuation
						mark(n, su, &changed)
					}
				case *ssa.Panic:
					terminated = true
				}
			}
			if !terminated {
				// a segment that ends at an inlined call (or falls through)
				for _, su := range n.Succs {
					mark(n, su, &changed)
				}
			}
		}
		if !changed {
			break
		}
	}
	return s
}

func (s *SCCP) get(v ssa.Value) AV {
	if av, ok := s.inject[v]; ok {
		return av
	}
	switch x := v.(type) {
	case *ssa.Const:
		if x.Value == nil {
			if nillable(x.Type()) {
				return avNil
			}
			return avTop
		}
		return AV{K: Cst, C: x.Value}
	case *ssa.Function, *ssa.Global, *ssa.Builtin:
		return avNonNil
	case *ssa.Parameter:
		if site := helperSite[x.Parent()]; site != nil && s.vf.nodeOf[site] != nil {
			for i, pr := range x.Parent().Params {
				if pr == x && i < len(site.Call.Args) {
					return s.get(site.Call.Args[i])
				}
			}
		}
		return avTop
	case *ssa.FreeVar:
		return avTop
	}
	if av, ok := s.val[v]; ok {
		return av
	}
	return AV{K: Bot}
}

func (s *SCCP) evalInstr(v ssa.Value, n *VNode) AV {
	if av, ok := s.inject[v]; ok {
		return av
	}
	switch x := v.(type) {
	case *ssa.Phi:
		out := AV{K: Bot}
		b := x.Block()
		to := s.vf.first[b]
		for i, p := range b.Preds {
			from := s.vf.last[p]
			if from != nil && to != nil && s.edge[[2]int{from.Idx, to.Idx}] {
				out = join(out, s.get(x.Edges[i]))
			}
		}
		return out
	case *ssa.Call:
		if h := isInlined(x); h != nil && s.vf.nodeOf[x] != nil {
			// value = join over the helper's reachable returns
			nres := h.Signature.Results().Len()
			vals := make([]AV, nres)
			for _, r := range s.vf.rets[h] {
				rn := s.vf.nodeOf[r]
				if rn == nil || !s.reach[rn.Idx] {
					continue
				}
				if f := sccpRetFilter[h]; f != nil && !f[r] {
					continue // path-sensitive query: only the returns on the path through the failed guard
				}
				for i := 0; i < nres && i < len(r.Results); i++ {
					vals[i] = join(vals[i], s.get(r.Results[i]))
				}
			}
			s.tuple[x] = vals
			if nres == 1 {
				return vals[0]
			}
			return avTop
		}
		switch calleeName(&x.Call) {
		case "fmt.Errorf", "errors.New", "golang.org/x/xerrors.Errorf", "golang.org/x/xerrors.New":
			return avNonNil // error constructors never return nil
		}
		return avTop
	case *ssa.Extract:
		if c, ok := x.Tuple.(*ssa.Call); ok {
			if vals, ok := s.tuple[c]; ok && x.Index < len(vals) {
				return vals[x.Index]
			}
		}
		return avTop
	case *ssa.BinOp:
		return evalBin(x.Op, s.get(x.X), s.get(x.Y))
	case *ssa.UnOp:
		a := s.get(x.X)
		if a.K == Bot {
			return a
		}
		switch x.Op {
		case token.NOT:
			if a.K == Cst && a.C.Kind() == constant.Bool {
				return avBool(!constant.BoolVal(a.C))
			}
		case token.SUB:
			if a.K == Cst && a.C.Kind() == constant.Int {
				return AV{K: Cst, C: constant.UnaryOp(token.SUB, a.C, 0)}
			}
		}
		return avTop
	case *ssa.ChangeType:
		return s.get(x.X)
	case *ssa.ChangeInterface:
		return s.get(x.X)
	case *ssa.Convert:
		a := s.get(x.X)
		if a.K == Cst && a.C.Kind() == constant.Int {
			if bt, ok := x.Type().Underlying().(*types.Basic); ok && bt.Info()&types.IsInteger != 0 {
				return a
			}
		}
		if a.K == Bot {
			return a
		}
		return avTop
	case *ssa.MakeInterface, *ssa.Alloc, *ssa.MakeMap, *ssa.MakeSlice, *ssa.MakeChan, *ssa.MakeClosure, *ssa.FieldAddr, *ssa.IndexAddr:
		return avNonNil
	}
	return avTop
}

func evalBin(op token.Token, a, b AV) AV {
	if a.K == Bot || b.K == Bot {
		return AV{K: Bot}
	}
	switch op {
	case token.EQL, token.NEQ:
		eq, known := false, false
		switch {
		case a.K == NilV && b.K == NilV:
			eq, known = true, true
		case (a.K == NilV && b.K == NonNil) || (a.K == NonNil && b.K == NilV):
			eq, known = false, true
		case a.K == Cst && b.K == Cst && a.C.Kind() == b.C.Kind():
			eq, known = constant.Compare(a.C, token.EQL, b.C), true
		}
		if known {
			if op == token.NEQ {
				eq = !eq
			}
			return avBool(eq)
		}
		return avTop
	case token.LSS, token.LEQ, token.GTR, token.GEQ:
		if a.K == Cst && b.K == Cst && a.C.Kind() == b.C.Kind() && a.C.Kind() != constant.Bool {
			return avBool(constant.Compare(a.C, op, b.C))
		}
		return avTop
	case token.ADD, token.SUB, token.MUL:
		if a.K == Cst && b.K == Cst && a.C.Kind() == constant.Int && b.C.Kind() == constant.Int {
			return AV{K: Cst, C: constant.BinaryOp(a.C, op, b.C)}
		}
		return avTop
	}
	return avTop
}

func (s *SCCP) BlockReachable(b *ssa.BasicBlock) bool {
	n := s.vf.first[b]
	return n != nil && s.reach[n.Idx]
}

func (s *SCCP) Reachable(in ssa.Instruction) bool {
	n := s.vf.nodeOf[in]
	if n == nil {
		return false
	}
	return s.reach[n.Idx]
}

// EdgeExec: is the CFG edge pred→to executable (phi edge queries)?
func (s *SCCP) EdgeExec(pred, to *ssa.BasicBlock) bool {
	a, b := s.vf.last[pred], s.vf.first[to]
	return a != nil && b != nil && s.edge[[2]int{a.Idx, b.Idx}]
}

func (s *SCCP) entryNode() *VNode {
	if rootOf(s.fn) != s.fn && len(s.fn.Blocks) > 0 {
		return s.vf.first[s.fn.Blocks[0]]
	}
	return s.vf.Entry
}

// reachableAfter: along executable edges, can control flow from just after a reach b?
func (s *SCCP) reachableAfter(a, b ssa.Instruction) bool {
	na, nb := s.vf.nodeOf[a], s.vf.nodeOf[b]
	if na == nil || nb == nil {
		return false
	}
	if na == nb && posInNode(na, a) < posInNode(nb, b) {
		return true
	}
	seen := map[int]bool{}
	var q []*VNode
	for _, su := range na.Succs {
		if s.edge[[2]int{na.Idx, su.Idx}] {
			q = append(q, su)
		}
	}
	for len(q) > 0 {
		cur := q[0]
		q = q[1:]
		if seen[cur.Idx] {
			continue
		}
		seen[cur.Idx] = true
		if cur == nb {
			return true
		}
		for _, su := range cur.Succs {
			if s.edge[[2]int{cur.Idx, su.Idx}] {
				q = append(q, su)
			}
		}
	}
	return false
}

// Path returns one executable node path from the entry to the node of `in` (for witnesses).
func (s *SCCP) PathTo(in ssa.Instruction) []*VNode {
	target := s.vf.nodeOf[in]
	entry := s.entryNode()
	if target == nil || entry == nil {
		return nil
	}
	prev := map[int]*VNode{entry.Idx: nil}
	q := []*VNode{entry}
	for len(q) > 0 {
		cur := q[0]
		q = q[1:]
		if cur == target {
			break
		}
		for _, su := range cur.Succs {
			if s.edge[[2]int{cur.Idx, su.Idx}] {
				if _, ok := prev[su.Idx]; !ok {
					prev[su.Idx] = cur
					q = append(q, su)
				}
			}
		}
	}
	if _, ok := prev[target.Idx]; !ok {
		return nil
	}
	var rev []*VNode
	for n := target; n != nil; n = prev[n.Idx] {
		rev = append(rev, n)
	}
	for i, j := 0, len(rev)-1; i < j; i, j = i+1, j-1 {
		rev[i], rev[j] = rev[j], rev[i]
	}
	return rev
}

// ---- graph helpers on the spliced CFG ----

func instrIndex(in ssa.Instruction) int {
	for i, x := range in.Block().Instrs {
		if x == in {
			return i
		}
	}
	return -1
}

// dominates reports whether a executes before b on every path reaching b.
func dominates(a, b ssa.Instruction) bool {
	if a == nil || b == nil || rootOf(a.Parent()) != rootOf(b.Parent()) {
		return false
	}
	vf := vfuncOf(a.Parent())
	na, nb := vf.nodeOf[a], vf.nodeOf[b]
	if na == nil || nb == nil {
		return false
	}
	if na == nb {
		return posInNode(na, a) < posInNode(nb, b)
	}
	return na.Dominates(nb)
}

// reachableFrom: can control flow from just after instruction a reach instruction b?
func reachableFrom(a, b ssa.Instruction) bool {
	if a == nil || b == nil || rootOf(a.Parent()) != rootOf(b.Parent()) {
		return false
	}
	vf := vfuncOf(a.Parent())
	na, nb := vf.nodeOf[a], vf.nodeOf[b]
	if na == nil || nb == nil {
		return false
	}
	if na == nb && posInNode(na, a) < posInNode(nb, b) {
		return true
	}
	seen := map[int]bool{}
	q := append([]*VNode{}, na.Succs...)
	for len(q) > 0 {
		cur := q[0]
		q = q[1:]
		if seen[cur.Idx] {
			continue
		}
		seen[cur.Idx] = true
		if cur == nb {
			return true
		}
		q = append(q, cur.Succs...)
	}
	return false
}

// inLoop reports whether the instruction lies on a CFG cycle.
func inLoop(in ssa.Instruction) bool {
	_, n := nodeOfInstr(in)
	if n == nil {
		return false
	}
	seen := map[int]bool{}
	q := append([]*VNode{}, n.Succs...)
	for len(q) > 0 {
		cur := q[0]
		q = q[1:]
		if cur == n {
			return true
		}
		if seen[cur.Idx] {
			continue
		}
		seen[cur.Idx] = true
		q = append(q, cur.Succs...)
	}
	return false
}
