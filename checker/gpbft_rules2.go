package main

import (
	"fmt"
	"sort"
	"strings"

	"golang.org/x/tools/go/ssa"
)

// ---------------- G3: PREPARE exit table (A5) and COMMIT justification ----------------
func (p *P) gPrepareExit(rule string) {
	r := p.r
	tp := p.fn(rule, inst+"tryPrepare")
	if tp == nil {
		return
	}
	q := callsTo(tp, false, qs+"HasStrongQuorumFor")
	c := callsTo(tp, false, qs+"CouldReachStrongQuorumFor")
	t := callsTo(tp, false, inst+"phaseTimeoutElapsed")
	s := callsTo(tp, false, qs+"ReceivedFromStrongQuorum")
	var js []CallSite
	js = append(js, callsTo(tp, false, qs+"HasJustificationOf")...)
	js = append(js, callsTo(tp, false, "gpbft.convergeState.HasJustificationOf")...)
	b := callsTo(tp, false, inst+"shouldRebroadcast")
	if len(q) != 1 || len(c) != 1 || len(t) != 1 || len(s) != 1 || len(js) != 3 || len(b) != 1 {
		r.Fail(rule, inst+"tryPrepare: decision atoms", p.c.Pos(tp.Pos()), fmt.Sprintf("expected quorum/could-reach/timeout/senders/3 justification lookups/rebroadcast, found %d/%d/%d/%d/%d/%d", len(q), len(c), len(t), len(s), len(js), len(b)))
		return
	}
	// provenance of the atoms
	key := "gpbft.ECChain.Key($0.proposal)"
	cur := "gpbft.instance.getRound($0, $0.current.Instant.Round)"
	nxt := "gpbft.instance.getRound($0, ($0.current.Instant.Round + 1))"
	r.Check(q[0].Arg(0) == cur+".prepared" && q[0].Arg(1) == key, rule, inst+"tryPrepare: quorum = strong PREPARE quorum of the current round for the proposal", p.c.InstrPos(q[0].Instr), q[0].Arg(0)+", "+q[0].Arg(1), "quorum test on "+q[0].Arg(0)+", "+q[0].Arg(1))
	r.Check(c[0].Arg(0) == cur+".prepared" && c[0].Arg(1) == key && c[0].Arg(2) == "false", rule, inst+"tryPrepare: impossibility test for the proposal, no adversary slack", p.c.InstrPos(c[0].Instr), c[0].Arg(1)+", "+c[0].Arg(2), "could-reach test on "+c[0].Arg(0)+", "+c[0].Arg(1)+", "+c[0].Arg(2))
	r.Check(s[0].Arg(0) == cur+".prepared", rule, inst+"tryPrepare: senders' quorum on the current round's PREPARE tally", p.c.InstrPos(s[0].Instr), s[0].Arg(0), "senders of "+s[0].Arg(0))
	var jsrc []string
	prepC := p.phaseStr("PREPARE_PHASE")
	for _, j := range js {
		jsrc = append(jsrc, j.Arg(0))
		r.Check(j.Arg(1) == prepC && j.Arg(2) == key, rule, inst+"tryPrepare: looks for a PREPARE justification of the proposal", p.c.InstrPos(j.Instr), j.Arg(1)+", "+j.Arg(2), "looks for "+j.Arg(1)+", "+j.Arg(2))
	}
	sort.Strings(jsrc)
	wantSrc := []string{cur + ".committed", nxt + ".converged", nxt + ".prepared"}
	sort.Strings(wantSrc)
	r.Check(strings.Join(jsrc, " ") == strings.Join(wantSrc, " "), rule, inst+"tryPrepare: justification sources = committed(r), prepared(r+1), converged(r+1)", p.c.Pos(tp.Pos()), strings.Join(jsrc, " "), "sources "+strings.Join(jsrc, " "))

	var setProp, setBot []Sink
	for _, fs := range fieldStores(tp, false, "instance", "value") {
		if canon(fs.Store.Val) == "$0.proposal" {
			setProp = append(setProp, Sink{fs.Store, "value := proposal"})
		} else if isFreshZero(fs.Store.Val) {
			setBot = append(setBot, Sink{fs.Store, "value := bottom"})
		} else {
			r.Fail(rule, inst+"tryPrepare: value assignment", p.c.InstrPos(fs.Store), "value set to "+canon(fs.Store.Val)+" (neither the proposal nor bottom)")
		}
	}
	bc := callSinks(tp, "COMMIT begun", inst+"beginCommit")
	rb := callSinks(tp, "rebroadcast", inst+"tryRebroadcast")
	if len(setProp) == 0 || len(setBot) == 0 || len(bc) == 0 {
		r.Fail(rule, inst+"tryPrepare: effects", p.c.Pos(tp.Pos()), "value := proposal / value := bottom / beginCommit not all present")
		return
	}
	eff := func(sc *SCCP, sinks []Sink) bool {
		for _, k := range sinks {
			if sc.Reachable(k.Instr) {
				return true
			}
		}
		return false
	}
	bad := 0
	rows := 0
	for mask := 0; mask < 256; mask++ {
		bit := func(i int) bool { return mask&(1<<i) != 0 }
		inj := p.curPhaseIs("PREPARE_PHASE").Match(tp)
		inj[q[0].Value()] = avBool(bit(0))
		inj[c[0].Value()] = avBool(bit(1))
		inj[t[0].Value()] = avBool(bit(2))
		inj[s[0].Value()] = avBool(bit(3))
		inj[js[0].Value()] = avBool(bit(4))
		inj[js[1].Value()] = avBool(bit(5))
		inj[js[2].Value()] = avBool(bit(6))
		inj[b[0].Value()] = avBool(bit(7))
		sc := RunSCCP(tp, inj)
		quorum, notPossible, complete := bit(0), !bit(1), bit(2) && bit(3)
		just := bit(4) || bit(5) || bit(6)
		var want string
		switch {
		case quorum || just:
			want = "proposal,commit"
		case notPossible || complete:
			want = "bottom,commit"
		case bit(7):
			want = "rebroadcast"
		default:
			want = "stay"
		}
		var got []string
		if eff(sc, setProp) {
			got = append(got, "proposal")
		}
		if eff(sc, setBot) {
			got = append(got, "bottom")
		}
		if eff(sc, bc) {
			got = append(got, "commit")
		}
		if eff(sc, rb) {
			got = append(got, "rebroadcast")
		}
		g := strings.Join(got, ",")
		if g == "" {
			g = "stay"
		}
		rows++
		if g != want {
			bad++
			if bad <= 4 {
				r.Fail(rule, fmt.Sprintf("%stryPrepare: row quorum=%v justification=%v impossible=%v timeout∧senders=%v", inst, quorum, just, notPossible, complete), p.c.Pos(tp.Pos()),
					fmt.Sprintf("spec A5: %s; code: %s", want, g))
			}
		}
	}
	r.Rows += rows
	if bad == 0 {
		r.OK(rule, inst+"tryPrepare: PREPARE exit decision table = spec A5", p.c.Pos(tp.Pos()), fmt.Sprintf("%d rows", rows))
	}
	// wrong phase → nothing happens
	for _, ph := range []string{"QUALITY_PHASE", "COMMIT_PHASE", "DECIDE_PHASE"} {
		g := p.curPhaseIs(ph)
		g.Name = "only in PREPARE phase (not " + strings.TrimSuffix(ph, "_PHASE") + ")"
		p.guarded(rule, tp, append(append(append([]Sink{}, bc...), setProp...), setBot...), g)
	}
}

// phiEdgesExecutable returns the canonical forms of the phi's edges whose predecessor edge is executable under s.
func phiEdgesExecutable(s *SCCP, ph *ssa.Phi) []string {
	var out []string
	for i, pr := range ph.Block().Preds {
		if s.EdgeExec(pr, ph.Block()) {
			out = append(out, canon(ph.Edges[i]))
		}
	}
	return out
}

func (p *P) gCommitJustification(rule string) {
	r := p.r
	bc := p.fn(rule, inst+"beginCommit")
	if bc == nil {
		return
	}
	br := callsTo(bc, false, inst+"broadcast")
	if len(br) != 1 {
		r.Fail(rule, inst+"beginCommit: one broadcast", p.c.Pos(bc.Pos()), fmt.Sprintf("%d broadcasts", len(br)))
		return
	}
	j := br[0].ArgValues()[5]
	ph, ok := j.(*ssa.Phi)
	if !ok {
		r.Fail(rule, inst+"beginCommit: justification selection", p.c.InstrPos(br[0].Instr), "justification argument is "+canon(j))
		return
	}
	valueKey := "gpbft.ECChain.Key($0.value)"
	prepC := p.phaseStr("PREPARE_PHASE")
	cur := "gpbft.instance.getRound($0, $0.current.Instant.Round)"
	nxt := "gpbft.instance.getRound($0, ($0.current.Instant.Round + 1))"
	allowed := map[string]bool{
		"nil": true,
		inst + "buildJustification($0, gpbft.quorumState.FindStrongQuorumFor(" + cur + ".prepared, " + valueKey + ")#0, $0.current.Instant.Round, " + prepC + ", $0.value)": true,
		"gpbft.quorumState.GetJustificationOf(" + cur + ".committed, " + prepC + ", " + valueKey + ")":                                                                     true,
		"gpbft.quorumState.GetJustificationOf(" + nxt + ".prepared, " + prepC + ", " + valueKey + ")":                                                                      true,
		"gpbft.convergeState.GetJustificationOf(" + nxt + ".converged, " + prepC + ", " + valueKey + ")":                                                                   true,
	}
	var edges []string
	for _, e := range ph.Edges {
		edges = append(edges, canon(e))
		r.Check(allowed[canon(e)], rule, inst+"beginCommit: COMMIT justification source", p.c.InstrPos(br[0].Instr), canon(e), "COMMIT may be justified by "+canon(e)+" — not a PREPARE quorum/justification for the committed value in this round")
	}
	// nil only for bottom
	sNZ := RunSCCP(bc, callResult("", "gpbft.ECChain.IsZero", "", -1, avFalse).Match(bc))
	nz := phiEdgesExecutable(sNZ, ph)
	hasNil := false
	for _, e := range nz {
		if e == "nil" {
			hasNil = true
		}
	}
	r.Check(!hasNil && len(nz) > 0, rule, inst+"beginCommit: a non-bottom COMMIT always carries a justification", p.c.InstrPos(br[0].Instr), strings.Join(nz, " | "), "a COMMIT for a non-bottom value can be broadcast without justification")
	sZ := RunSCCP(bc, callResult("", "gpbft.ECChain.IsZero", "", -1, avTrue).Match(bc))
	z := phiEdgesExecutable(sZ, ph)
	r.Check(len(z) == 1 && z[0] == "nil", rule, inst+"beginCommit: COMMIT for bottom carries no justification", p.c.InstrPos(br[0].Instr), strings.Join(z, " | "), "bottom COMMIT justification: "+strings.Join(z, " | "))
	// each looked-up justification is used only when non-nil; quorum-built one only when found
	for _, cs := range callSites(bc, false) {
		if strings.HasSuffix(cs.Callee(), "GetJustificationOf") {
			v := cs.Value()
			s := RunSCCP(bc, map[ssa.Value]AV{v: avNil})
			used := false
			for i, pr := range ph.Block().Preds {
				if ph.Edges[i] == v && s.EdgeExec(pr, ph.Block()) {
					used = true
				}
			}
			r.Check(!used, rule, inst+"beginCommit: a missing justification is never used", p.c.InstrPos(cs.Instr), "edge not taken when nil", "nil justification from "+cs.Arg(0)+" can be broadcast")
		}
	}
	p.guardedAfter(rule, bc, callSinks(bc, "justification built", inst+"buildJustification"), callResult("strong PREPARE quorum found", qs+"FindStrongQuorumFor", "", 1, avFalse))
	r.Check(br[0].Arg(3) == "$0.value" && br[0].Arg(2) == prepCToCommit(p) && br[0].Arg(1) == "$0.current.Instant.Round", rule, inst+"beginCommit: broadcasts COMMIT(current round, value)", p.c.InstrPos(br[0].Instr), br[0].Arg(1)+", "+br[0].Arg(2)+", "+br[0].Arg(3), "broadcasts "+br[0].Arg(1)+", "+br[0].Arg(2)+", "+br[0].Arg(3))
}

func prepCToCommit(p *P) string { return p.phaseStr("COMMIT_PHASE") }

// ---------------- G20: COMMIT handling table (A6) ----------------
func (p *P) gCommitTable(rule string) {
	r := p.r
	tc := p.fn(rule, inst+"tryCommit")
	if tc == nil {
		return
	}
	fq := callsTo(tc, false, qs+"FindStrongQuorumValue")
	t := callsTo(tc, false, inst+"phaseTimeoutElapsed")
	s := callsTo(tc, false, qs+"ReceivedFromStrongQuorum")
	var js []CallSite
	js = append(js, callsTo(tc, false, qs+"HasJustificationOf")...)
	js = append(js, callsTo(tc, false, "gpbft.convergeState.HasJustificationOf")...)
	b := callsTo(tc, false, inst+"shouldRebroadcast")
	var isz []CallSite
	for _, cs := range callsTo(tc, false, "gpbft.ECChain.IsZero") {
		if strings.Contains(cs.Arg(0), "FindStrongQuorumValue(") {
			isz = append(isz, cs)
		}
	}
	if len(fq) != 1 || len(t) != 1 || len(s) != 1 || len(js) != 2 || len(b) != 1 || len(isz) != 1 {
		r.Fail(rule, inst+"tryCommit: decision atoms", p.c.Pos(tc.Pos()), fmt.Sprintf("atoms found: quorum=%d timeout=%d senders=%d bottom-justifications=%d rebroadcast=%d zero-test=%d", len(fq), len(t), len(s), len(js), len(b), len(isz)))
		return
	}
	commC := p.phaseStr("COMMIT_PHASE")
	nxt := "gpbft.instance.getRound($0, ($1 + 1))"
	var jsrc []string
	for _, j := range js {
		jsrc = append(jsrc, j.Arg(0))
		r.Check(j.Arg(1) == commC && j.Arg(2) == "gpbft.ECChain.Key(gpbft.bottomECChain)", rule, inst+"tryCommit: looks for a COMMIT-for-bottom justification", p.c.InstrPos(j.Instr), j.Arg(1)+", "+j.Arg(2), "looks for "+j.Arg(1)+", "+j.Arg(2))
	}
	sort.Strings(jsrc)
	r.Check(strings.Join(jsrc, " ") == nxt+".converged "+nxt+".prepared", rule, inst+"tryCommit: bottom justification sources = prepared(ρ+1), converged(ρ+1)", p.c.Pos(tc.Pos()), strings.Join(jsrc, " "), "sources "+strings.Join(jsrc, " "))
	var found ssa.Value
	for _, ref := range *fq[0].Value().Referrers() {
		if ex, ok := ref.(*ssa.Extract); ok && ex.Index == 1 {
			found = ex
		}
	}
	bd := callSinks(tc, "decide", inst+"beginDecide")
	nr := callSinks(tc, "next round", inst+"beginNextRound")
	rb := callSinks(tc, "rebroadcast", inst+"tryRebroadcast")
	sway := callSinks(tc, "sway", "gpbft.quorumState.ListAllValues")
	if found == nil || len(bd) != 1 || len(nr) == 0 || len(rb) == 0 || len(sway) == 0 {
		r.Fail(rule, inst+"tryCommit: effects", p.c.Pos(tc.Pos()), "decide / next round / rebroadcast / sway not all present")
		return
	}
	reach := func(sc *SCCP, ss []Sink) bool {
		for _, k := range ss {
			if sc.Reachable(k.Instr) {
				return true
			}
		}
		return false
	}
	bad, rows := 0, 0
	for mask := 0; mask < 512; mask++ {
		bit := func(i int) bool { return mask&(1<<i) != 0 }
		inj := map[ssa.Value]AV{found: avBool(bit(0)), isz[0].Value(): avBool(bit(1)), t[0].Value(): avBool(bit(4)), s[0].Value(): avBool(bit(5)), js[0].Value(): avBool(bit(6)), js[1].Value(): avBool(bit(7)), b[0].Value(): avBool(bit(8))}
		sameRound, inCommit := bit(2), bit(3)
		rel := RelNE
		if sameRound {
			rel = RelEQ
		}
		for k, v := range cmpRel("", `^\$0\.current\.Instant\.Round$`, `^\$1$`, rel).Match(tc) {
			inj[k] = v
		}
		ph := "PREPARE_PHASE"
		if inCommit {
			ph = "COMMIT_PHASE"
		}
		for k, v := range p.curPhaseIs(ph).Match(tc) {
			inj[k] = v
		}
		sc := RunSCCP(tc, inj)
		strong, zero := bit(0), bit(1)
		jb := bit(6) || bit(7)
		complete := bit(4) && bit(5)
		var want string
		switch {
		case strong && !zero:
			want = "decide"
		case !sameRound || !inCommit:
			want = "nothing"
		case strong || jb:
			want = "next"
		case complete:
			want = "sway,next"
		case bit(8):
			want = "rebroadcast"
		default:
			want = "nothing"
		}
		var got []string
		if reach(sc, bd) {
			got = append(got, "decide")
		}
		if reach(sc, sway) {
			got = append(got, "sway")
		}
		if reach(sc, nr) {
			got = append(got, "next")
		}
		if reach(sc, rb) {
			got = append(got, "rebroadcast")
		}
		g := strings.Join(got, ",")
		if g == "" {
			g = "nothing"
		}
		rows++
		if g != want {
			bad++
			if bad <= 4 {
				r.Fail(rule, fmt.Sprintf("%stryCommit: row strong=%v bottom=%v sameRound=%v inCommit=%v bottomJust=%v timeout∧senders=%v", inst, strong, zero, sameRound, inCommit, jb, complete), p.c.Pos(tc.Pos()), fmt.Sprintf("spec A6: %s; code: %s", want, g))
			}
		}
	}
	r.Rows += rows
	if bad == 0 {
		r.OK(rule, inst+"tryCommit: COMMIT handling decision table = spec A6", p.c.Pos(tc.Pos()), fmt.Sprintf("%d rows", rows))
	}
	// sway: adopt a committed non-bottom value, adding it as a candidate
	for _, cs := range callsTo(tc, false, inst+"addCandidate") {
		r.Check(strings.Contains(cs.Arg(1), "ListAllValues(gpbft.instance.getRound($0, $1).committed)["), rule, inst+"tryCommit: sway candidate is a value COMMITted in this round", p.c.InstrPos(cs.Instr), cs.Arg(1), "candidate "+cs.Arg(1))
		p.guardedAfter(rule, tc, []Sink{{cs.Instr, "sway candidate added"}}, callResult("swayed-to value non-bottom", "gpbft.ECChain.IsZero", `ListAllValues\(`, -1, avTrue))
	}
}

// ---------------- G9–G12: justification building ----------------
func (p *P) gJustificationSites(rule string) {
	r := p.r
	tallyPhase := map[string]string{"prepared": "PREPARE_PHASE", "committed": "COMMIT_PHASE", "decision": "DECIDE_PHASE"}
	n := 0
	for _, f := range p.c.ProdFuncs() {
		if !strings.HasPrefix(funcName(f), "gpbft.instance.") {
			continue
		}
		for _, cs := range callsTo(f, false, inst+"buildJustification") {
			n++
			a := cs.ArgValues()
			qv, round, phase, value := canon(a[1]), canon(a[2]), canon(a[3]), canon(a[4])
			c := fmt.Sprintf("%s: buildJustification #%d aggregates what it claims", funcName(f), n)
			where := p.c.InstrPos(cs.Instr)
			// q = FindStrongQuorumFor(T, K)#0
			if !strings.HasPrefix(qv, qs+"FindStrongQuorumFor(") || !strings.HasSuffix(qv, ")#0") {
				r.Fail(rule, c, where, "quorum argument is "+qv+", not the result of FindStrongQuorumFor")
				continue
			}
			inner := strings.TrimSuffix(strings.TrimPrefix(qv, qs+"FindStrongQuorumFor("), ")#0")
			// split "T, K" at the top-level comma
			depth, cut := 0, -1
			for i, ch := range inner {
				switch ch {
				case '(', '[':
					depth++
				case ')', ']':
					depth--
				case ',':
					if depth == 0 && cut < 0 {
						cut = i
					}
				}
			}
			if cut < 0 {
				r.Fail(rule, c, where, "cannot parse "+qv)
				continue
			}
			T, K := inner[:cut], strings.TrimSpace(inner[cut+1:])
			var field, tround string
			if T == "$0.decision" {
				field, tround = "decision", "0"
			} else if strings.HasPrefix(T, "gpbft.instance.getRound($0, ") {
				rest := strings.TrimPrefix(T, "gpbft.instance.getRound($0, ")
				i := strings.LastIndex(rest, ").")
				if i >= 0 {
					tround, field = rest[:i], rest[i+2:]
				}
			}
			okPhase := tallyPhase[field] != "" && phase == p.phaseStr(tallyPhase[field])
			okRound := tround == round
			okKey := K == "gpbft.ECChain.Key("+value+")" || (value == "nil" && K == "gpbft.ECChain.Key(gpbft.bottomECChain)")
			r.Check(okPhase && okRound && okKey, rule, c, where, fmt.Sprintf("tally %s of round %s, key %s ↔ claims (%s, %s, %s)", field, tround, K, round, phase, value),
				fmt.Sprintf("aggregates the %s tally of round %s for key %s but claims round %s phase %s value %s", field, tround, K, round, phase, value))
			p.guardedAfter(rule, f, []Sink{{cs.Instr, "justification built"}}, callResult("strong quorum found", qs+"FindStrongQuorumFor", "", 1, avFalse))
		}
	}
	if n < 4 {
		r.Undecided(rule, "buildJustification call sites", fmt.Sprintf("%d sites found (4 confirmed)", n))
	}
}

func (p *P) gJustificationFields(rule string) {
	r := p.r
	bj := p.fn(rule, inst+"buildJustification")
	if bj == nil {
		return
	}
	var jl, pl map[string]ssa.Value
	allValues(bj, func(v ssa.Value) {
		a, ok := v.(*ssa.Alloc)
		if !ok {
			return
		}
		switch {
		case strings.HasSuffix(shortType(a.Type()), "gpbft.Justification"):
			jl = structStores(a)
		case strings.HasSuffix(shortType(a.Type()), "gpbft.Payload"):
			pl = structStores(a)
		}
	})
	if jl != nil {
		// the Vote stored is that payload literal
		if v := jl["Vote"]; v == nil || !strings.HasSuffix(canon(v), "gpbft.Payload") {
			pl = nil
		}
	}
	if jl == nil {
		r.Undecided(rule, inst+"buildJustification: literal", "Justification literal not found")
		return
	}
	want := map[string]string{"Instance": "$0.current.Instant.ID", "Round": "$2", "Phase": "$3", "Value": "$4", "SupplementalData": "*$0.supplementalData"}
	for f, w := range want {
		got := "<unset>"
		if pl[f] != nil {
			got = canon(pl[f])
		}
		r.Check(got == w, rule, inst+"buildJustification: Vote."+f+" = "+w, p.c.Pos(bj.Pos()), got, "Vote."+f+" is "+got)
	}
	sg, sn := "<unset>", "<unset>"
	if jl["Signature"] != nil {
		sg = canon(jl["Signature"])
	}
	if jl["Signers"] != nil {
		sn = canon(jl["Signers"])
	}
	r.Check(sn == "gpbft.QuorumResult.SignersBitfield($1)", rule, inst+"buildJustification: Signers = the quorum's signers", p.c.Pos(bj.Pos()), sn, "Signers is "+sn)
	r.Check(sg == "gpbft.QuorumResult.Aggregate($1, $0.aggregateVerifier)#0", rule, inst+"buildJustification: Signature = aggregate of the quorum's signatures with the instance's verifier", p.c.Pos(bj.Pos()), sg, "Signature is "+sg)
	// no justification is produced when aggregation fails
	var rets []Sink
	for _, ret := range returnsOf(bj) {
		rets = append(rets, Sink{ret, "justification returned"})
	}
	p.guarded(rule, bj, rets, errFails("aggregation succeeded", "gpbft.QuorumResult.Aggregate", ""))
	if ag := p.fn(rule, "gpbft.QuorumResult.Aggregate"); ag != nil {
		cs := callsTo(ag, false, "iface:Aggregate.Aggregate")
		r.Check(len(cs) == 1 && strings.HasSuffix(cs[0].Arg(1), ".Signers") && strings.HasSuffix(cs[0].Arg(2), ".Signatures"), rule, "QuorumResult.Aggregate: aggregates its own signers and signatures", p.c.Pos(ag.Pos()), "Signers, Signatures", "aggregate inputs changed")
	}
}

func (p *P) gMinimalQuorum(rule string) {
	r := p.r
	f := p.fn(rule, qs+"FindStrongQuorumFor")
	if f == nil {
		return
	}
	pos := constReturns(f, 1, "true")
	if len(pos) != 1 {
		r.Undecided(rule, qs+"FindStrongQuorumFor: positive return", fmt.Sprintf("%d positive returns", len(pos)))
		return
	}
	p.guarded(rule, f, pos,
		canonIs("value has support", `^\$0\.chainSupport\[\$1\]#1$`, avFalse),
		canonIs("support flagged as strong quorum", `\.hasStrongQuorum$`, avFalse),
		callResult("collected signers reach a strong quorum", "gpbft.IsStrongQuorum", "", -1, avFalse))
	for _, cs := range callsTo(f, false, "gpbft.IsStrongQuorum") {
		r.Check(cs.Arg(1) == "$0.powerTable.ScaledTotal" && p.accumulatesFrom(cs.ArgValues()[0], "$0.powerTable.ScaledPower["), rule, qs+"FindStrongQuorumFor: threshold on the same table's scaled powers/total", p.c.InstrPos(cs.Instr), cs.Arg(0)+" / "+cs.Arg(1), "quorum test on "+cs.Arg(0)+" / "+cs.Arg(1))
	}
	so := callSinks(f, "signers sorted", "sort.Ints")
	var loopI ssa.Instruction
	for _, cs := range callsTo(f, false, "gpbft.IsStrongQuorum") {
		loopI = cs.Instr
	}
	if len(so) == 1 && loopI != nil {
		r.Check(dominates(so[0].Instr, loopI), rule, qs+"FindStrongQuorumFor: signer indices sorted before accumulation (minimal prefix, strongest first)", p.c.InstrPos(so[0].Instr), "sort ≺ accumulation", "indices are not sorted before the prefix is taken")
	} else {
		r.Fail(rule, qs+"FindStrongQuorumFor: signer indices sorted", p.c.Pos(f.Pos()), "sort.Ints on the signer indices not found")
	}
	// signatures parallel to signers: power, entry and signature use the same index
	idx := ""
	allValues(f, func(v ssa.Value) {
		c := canon(v)
		if strings.HasPrefix(c, "$0.powerTable.ScaledPower[") {
			idx = strings.TrimSuffix(strings.TrimPrefix(c, "$0.powerTable.ScaledPower["), "]")
		}
	})
	okPar := false
	allValues(f, func(v ssa.Value) {
		if c, ok := v.(*ssa.Call); ok {
			if b, isB := c.Call.Value.(*ssa.Builtin); isB && b.Name() == "append" && strings.Contains(shortType(c.Type()), "[][]byte") {
				if strings.Contains(canon(c.Call.Args[1]), "$0.powerTable.Entries["+idx+"].ID]") || strings.Contains(canon(c.Call.Args[1]), ".signatures[") {
					okPar = true
				}
			}
		}
	})
	r.Check(idx != "" && okPar, rule, qs+"FindStrongQuorumFor: signatures collected for the same table index as the power counted", p.c.Pos(f.Pos()), "index "+idx, "signers and signatures are no longer collected in parallel")
	ret := pos[0].Instr.(*ssa.Return)
	qr := retValue(ret, 0)
	okRes := false
	if u, ok := qr.(*ssa.UnOp); ok {
		if a, ok := u.X.(*ssa.Alloc); ok {
			st := structStores(a)
			if st["Signers"] != nil && st["Signatures"] != nil {
				okRes = strings.Contains(canon(st["Signers"]), "[:(") && strings.Contains(canon(st["Signers"]), " + 1)]")
			}
		}
	}
	r.Check(okRes, rule, qs+"FindStrongQuorumFor: returns the prefix of signers up to the quorum-completing one", p.c.InstrPos(ret), "signers[:i+1]", "returned signer set is not the minimal prefix")
}

// ---------------- G13: certificate built and self-validated before storing ----------------
func (p *P) gSaveDecision(rule string) {
	r := p.r
	sd := p.fn(rule, "f3.gpbftHost.saveDecision")
	if sd == nil {
		return
	}
	put := callSinks(sd, "certificate stored", "certstore.Store.Put")
	p.guarded(rule, sd, put,
		errFails("certificate formed", "certs.NewFinalityCertificate", ""),
		errFails("certificate validates against the current committee", "certs.ValidateFinalityCertificates", ""))
	for _, cs := range callsTo(sd, false, "certs.ValidateFinalityCertificates") {
		a := []string{cs.Arg(2), cs.Arg(3), cs.Arg(4), cs.Arg(5)}
		ok := strings.HasSuffix(a[0], "GetCommittee($0, $1, $2.Vote.Instance)#0.PowerTable.Entries") && a[1] == "$2.Vote.Instance" && a[2] == "nil" && strings.Contains(a[3], "certs.NewFinalityCertificate(")
		r.Check(ok, rule, "saveDecision: self-validation uses this instance's committee table and instance", p.c.InstrPos(cs.Instr), strings.Join(a, ", "), "validates with "+strings.Join(a, ", "))
	}
	for _, cs := range callsTo(sd, false, "certs.MakePowerTableDiff") {
		ok := strings.HasSuffix(cs.Arg(0), "GetCommittee($0, $1, $2.Vote.Instance)#0.PowerTable.Entries") && strings.HasSuffix(cs.Arg(1), "GetCommittee($0, $1, ($2.Vote.Instance + 1))#0.PowerTable.Entries")
		r.Check(ok, rule, "saveDecision: delta = diff(committee(i), committee(i+1))", p.c.InstrPos(cs.Instr), cs.Arg(0)+" → "+cs.Arg(1), "delta between "+cs.Arg(0)+" and "+cs.Arg(1))
	}
	for _, cs := range callsTo(sd, false, "certs.NewFinalityCertificate") {
		r.Check(strings.HasPrefix(cs.Arg(0), "certs.MakePowerTableDiff(") && cs.Arg(1) == "$2", rule, "saveDecision: certificate from the decision and that delta", p.c.InstrPos(cs.Instr), cs.Arg(1), "certificate from "+cs.Arg(0)+", "+cs.Arg(1))
	}
	for _, cs := range callsTo(sd, false, "certstore.Store.Put") {
		r.Check(strings.Contains(cs.Arg(2), "certs.NewFinalityCertificate("), rule, "saveDecision: the validated certificate is what is stored", p.c.InstrPos(cs.Instr), cs.Arg(2), "stores "+cs.Arg(2))
	}
	if nf := p.fn(rule, "certs.NewFinalityCertificate"); nf != nil {
		var acc []Sink
		for _, ret := range returnsOf(nf) {
			if canon(retValue(ret, 1)) == "nil" {
				acc = append(acc, Sink{ret, "certificate returned"})
				if a, ok := retValue(ret, 0).(*ssa.Alloc); ok {
					st := structStores(a)
					want := map[string]string{"GPBFTInstance": "$1.Vote.Instance", "SupplementalData": "$1.Vote.SupplementalData", "ECChain": "$1.Vote.Value", "Signers": "$1.Signers", "Signature": "$1.Signature", "PowerTableDelta": "$0"}
					for f, w := range want {
						got := "<unset>"
						if st[f] != nil {
							got = canon(st[f])
						}
						r.Check(got == w, rule, "NewFinalityCertificate: "+f+" = "+w, p.c.Pos(nf.Pos()), got, f+" is "+got)
					}
				}
			}
		}
		p.guarded(rule, nf, acc,
			cmpRel("DECIDE justification", `^\$1\.Vote\.Phase$`, "^"+p.phaseStr("DECIDE_PHASE")+"$", RelNE),
			cmpRel("round 0", `^\$1\.Vote\.Round$`, `^0$`, RelNE),
			callResult("non-bottom decision", "gpbft.ECChain.IsZero", "", -1, avTrue))
	}
}

// ---------------- G14–G17: phase discipline of what is emitted ----------------
type transition struct {
	fn, phase string
	alarm     bool
}

var transitions = []transition{
	{"beginQuality", "QUALITY_PHASE", true}, {"beginConverge", "CONVERGE_PHASE", true}, {"beginPrepare", "PREPARE_PHASE", true},
	{"beginCommit", "COMMIT_PHASE", true}, {"beginDecide", "DECIDE_PHASE", false}, {"skipToDecide", "DECIDE_PHASE", false}, {"terminate", "TERMINATED_PHASE", false},
}

func (p *P) gPhaseWriters(rule string) {
	r := p.r
	var allowed []string
	for _, t := range transitions {
		allowed = append(allowed, inst+t.fn)
	}
	// who writes current.Phase / current.Round
	n := 0
	for _, f := range p.c.ProdFuncs() {
		if !strings.HasPrefix(funcName(f), "gpbft.") {
			continue
		}
		for _, b := range f.Blocks {
			for _, in := range b.Instrs {
				st, ok := in.(*ssa.Store)
				if !ok {
					continue
				}
				a := strings.TrimPrefix(canon(st.Addr), "&")
				switch a {
				case "$0.current.Instant.Phase":
					n++
					okW := false
					for _, t := range transitions {
						if funcName(f) == inst+t.fn {
							okW = canon(st.Val) == p.phaseStr(t.phase)
						}
					}
					r.Check(okW, rule, funcName(f)+": writes its own phase constant", p.c.InstrPos(st), canon(st.Val), "phase "+canon(st.Val)+" written in "+funcName(f)+" — only the seven transition functions may move the phase, each to its own constant")
				case "$0.current.Instant.Round":
					fnm := funcName(f)
					v := canon(st.Val)
					ok := (fnm == inst+"beginNextRound" && v == "($0.current.Instant.Round + 1)") || (fnm == inst+"skipToRound" && v == "$1")
					r.Check(ok, rule, fnm+": round only increases", p.c.InstrPos(st), v, "round set to "+v+" in "+fnm)
				}
			}
		}
	}
	if n < 7 {
		r.Undecided(rule, "phase writers", fmt.Sprintf("%d phase stores found (7 confirmed)", n))
	}
	// callers and their guards
	p.onlyCalledFrom(rule, inst+"beginQuality", inst+"Start")
	p.onlyCalledFrom(rule, inst+"beginPrepare", inst+"tryQuality", inst+"tryConverge")
	p.onlyCalledFrom(rule, inst+"beginCommit", inst+"tryPrepare")
	p.onlyCalledFrom(rule, inst+"beginConverge", inst+"beginNextRound", inst+"skipToRound")
	p.onlyCalledFrom(rule, inst+"beginNextRound", inst+"tryCommit")
	p.onlyCalledFrom(rule, inst+"skipToRound", inst+"postReceive")
	p.onlyCalledFrom(rule, inst+"tryQuality", inst+"tryCurrentPhase")
	p.onlyCalledFrom(rule, inst+"tryConverge", inst+"tryCurrentPhase")
	p.onlyCalledFrom(rule, inst+"tryPrepare", inst+"tryCurrentPhase")
	p.onlyCalledFrom(rule, inst+"tryDecide", inst+"tryCurrentPhase")
	p.onlyCalledFrom(rule, inst+"tryCommit", inst+"tryCurrentPhase", inst+"receiveOne")
	// each try* acts only in its own phase
	for _, t := range []struct{ fn, phase, next string }{{"tryQuality", "QUALITY_PHASE", "beginPrepare"}, {"tryConverge", "CONVERGE_PHASE", "beginPrepare"}, {"tryPrepare", "PREPARE_PHASE", "beginCommit"}} {
		fn := p.fn(rule, inst+t.fn)
		if fn == nil {
			continue
		}
		sinks := callSinks(fn, "transition", inst+t.next)
		for _, ph := range allPhases {
			if ph == t.phase {
				continue
			}
			g := p.curPhaseIs(ph)
			g.Name = "acts only in " + strings.TrimSuffix(t.phase, "_PHASE") + " (not " + strings.TrimSuffix(ph, "_PHASE") + ")"
			p.guarded(rule, fn, sinks, g)
		}
	}
	if bq := p.fn(rule, inst+"beginQuality"); bq != nil {
		var st []Sink
		for _, b := range bq.Blocks {
			for _, in := range b.Instrs {
				if s, ok := in.(*ssa.Store); ok && canon(s.Addr) == "&$0.current.Instant.Phase" {
					st = append(st, Sink{s, "phase := QUALITY"})
				}
			}
		}
		for _, ph := range allPhases[1:] {
			g := p.curPhaseIs(ph)
			g.Name = "QUALITY begins only from INITIAL (not " + strings.TrimSuffix(ph, "_PHASE") + ")"
			p.guarded(rule, bq, st, g)
		}
	}
	if tcp := p.fn(rule, inst+"tryCurrentPhase"); tcp != nil {
		m := map[string]string{"tryQuality": "QUALITY_PHASE", "tryConverge": "CONVERGE_PHASE", "tryPrepare": "PREPARE_PHASE", "tryCommit": "COMMIT_PHASE", "tryDecide": "DECIDE_PHASE"}
		for fnm, own := range m {
			sinks := callSinks(tcp, fnm, inst+fnm)
			for _, ph := range allPhases {
				if ph == own {
					continue
				}
				g := p.curPhaseIs(ph)
				g.Name = fnm + " dispatched only in " + strings.TrimSuffix(own, "_PHASE") + " (not " + strings.TrimSuffix(ph, "_PHASE") + ")"
				p.guarded(rule, tcp, sinks, g)
			}
		}
		for _, cs := range callsTo(tcp, false, inst+"tryCommit") {
			r.Check(cs.Arg(1) == "$0.current.Instant.Round", rule, inst+"tryCurrentPhase: COMMIT tried for the current round", p.c.InstrPos(cs.Instr), cs.Arg(1), "tries round "+cs.Arg(1))
		}
	}
	if tc := p.fn(rule, inst+"tryCommit"); tc != nil {
		nr := callSinks(tc, "next round", inst+"beginNextRound")
		p.guarded(rule, tc, nr, cmpRel("round is the current round", `^\$0\.current\.Instant\.Round$`, `^\$1$`, RelNE))
		for _, ph := range []string{"QUALITY_PHASE", "CONVERGE_PHASE", "PREPARE_PHASE", "DECIDE_PHASE", "TERMINATED_PHASE"} {
			g := p.curPhaseIs(ph)
			g.Name = "next round only from COMMIT (not " + strings.TrimSuffix(ph, "_PHASE") + ")"
			p.guarded(rule, tc, nr, g)
		}
	}
	if ss := p.fn(rule, inst+"shouldSkipToRound"); ss != nil {
		pos := constReturns(ss, 2, "true")
		p.guarded(rule, ss, pos,
			cmpRel("skip only to a later round (not the same)", `^\$1$`, `^\$0\.current\.Instant\.Round$`, RelEQ),
			cmpRel("skip only to a later round (not earlier)", `^\$1$`, `^\$0\.current\.Instant\.Round$`, RelLT),
			p.curPhaseIs("DECIDE_PHASE").named("no skipping once in DECIDE"),
			callResult("weak quorum of PREPAREs in that round", qs+"ReceivedFromWeakQuorum", "", -1, avFalse),
			callResult("a justified CONVERGE proposal exists", "gpbft.ConvergeValue.IsValid", "", -1, avFalse))
		for _, cs := range callsTo(ss, false, qs+"ReceivedFromWeakQuorum") {
			r.Check(cs.Arg(0) == "gpbft.instance.getRound($0, $1).prepared", rule, inst+"shouldSkipToRound: weak quorum counted on that round's PREPARE tally", p.c.InstrPos(cs.Instr), cs.Arg(0), "weak quorum on "+cs.Arg(0))
		}
	}
	if pr := p.fn(rule, inst+"postReceive"); pr != nil {
		p.guarded(rule, pr, callSinks(pr, "skip", inst+"skipToRound"), callResult("skip condition holds", inst+"shouldSkipToRound", "", 2, avFalse))
		for _, cs := range callsTo(pr, false, inst+"skipToRound") {
			ok := strings.HasSuffix(cs.Arg(2), "#0") && strings.HasSuffix(cs.Arg(3), "#1") && strings.Contains(cs.Arg(2), "shouldSkipToRound(")
			r.Check(ok, rule, inst+"postReceive: skips with the chain and justification returned by shouldSkipToRound", p.c.InstrPos(cs.Instr), cs.Arg(2), "skips with "+cs.Arg(2)+", "+cs.Arg(3))
		}
	}
	if ro := p.fn(rule, inst+"receiveOne"); ro != nil {
		g := p.curPhaseIs("DECIDE_PHASE").named("COMMIT/DECIDE handling only before DECIDE")
		p.guarded(rule, ro, append(callSinks(ro, "late COMMIT handling", inst+"tryCommit"), callSinks(ro, "skip to DECIDE", inst+"skipToDecide")...), g)
	}
	for _, m := range []string{"Receive", "ReceiveMany"} {
		if f := p.fn(rule, inst+m); f != nil {
			p.guarded(rule, f, callSinks(f, "message processed", inst+"receiveOne"), callResult("not terminated", inst+"terminated", "", -1, avTrue))
		}
	}
	if bn := p.fn(rule, inst+"beginNextRound"); bn != nil {
		var rs []Sink
		for _, b := range bn.Blocks {
			for _, in := range b.Instrs {
				if s, ok := in.(*ssa.Store); ok && canon(s.Addr) == "&$0.current.Instant.Round" {
					rs = append(rs, Sink{s, "round += 1"})
				}
			}
		}
		p.before(rule, bn, "round increased", rs, "CONVERGE begun", callSinks(bn, "converge", inst+"beginConverge"))
	}
	if sr := p.fn(rule, inst+"skipToRound"); sr != nil {
		var rs []Sink
		for _, b := range sr.Blocks {
			for _, in := range b.Instrs {
				if s, ok := in.(*ssa.Store); ok && canon(s.Addr) == "&$0.current.Instant.Round" {
					rs = append(rs, Sink{s, "round := r"})
				}
			}
		}
		p.before(rule, sr, "round increased", rs, "CONVERGE begun", callSinks(sr, "converge", inst+"beginConverge"))
	}
}

func (p *P) gBroadcastDiscipline(rule string) {
	r := p.r
	p.onlyCalledFromIn(rule, "iface:Host.RequestBroadcast", "gpbft.", inst+"broadcast")
	for _, t := range transitions {
		fn := p.fn(rule, inst+t.fn)
		if fn == nil {
			continue
		}
		br := callsTo(fn, false, inst+"broadcast")
		var ps []Sink
		for _, b := range fn.Blocks {
			for _, in := range b.Instrs {
				if s, ok := in.(*ssa.Store); ok && canon(s.Addr) == "&$0.current.Instant.Phase" {
					ps = append(ps, Sink{s, "phase stored"})
				}
			}
		}
		if t.fn == "terminate" {
			r.Check(len(br) == 0, rule, inst+t.fn+": emits nothing", p.c.Pos(fn.Pos()), "0 broadcasts", fmt.Sprintf("%d broadcasts", len(br)))
		} else {
			okOne := len(br) == 1 && !inLoop(br[0].Instr)
			r.Check(okOne, rule, inst+t.fn+": exactly one broadcast, not in a loop", p.c.Pos(fn.Pos()), "1", fmt.Sprintf("%d broadcast call sites", len(br)))
			if okOne {
				wantRound := "$0.current.Instant.Round"
				if t.phase == "DECIDE_PHASE" {
					wantRound = "0"
				}
				r.Check(br[0].Arg(2) == p.phaseStr(t.phase) && br[0].Arg(1) == wantRound, rule, inst+t.fn+": broadcasts its own phase at the right round", p.c.InstrPos(br[0].Instr), br[0].Arg(1)+", "+br[0].Arg(2), "broadcasts round "+br[0].Arg(1)+" phase "+br[0].Arg(2))
				p.before(rule, fn, "phase stored", ps, "broadcast", []Sink{{br[0].Instr, "broadcast"}})
				// on every path that stores the phase the broadcast happens (mustPass from the store to any return)
				np := callSinks(fn, "progress notified", "gpbft.atomicProgression.NotifyProgress")
				p.before(rule, fn, "progress notified", np, "broadcast", []Sink{{br[0].Instr, "broadcast"}})
				for _, n := range callsTo(fn, false, "gpbft.atomicProgression.NotifyProgress") {
					r.Check(n.Arg(1) == "$0.current", rule, inst+t.fn+": notifies the new progress", p.c.InstrPos(n.Instr), n.Arg(1), "notifies "+n.Arg(1))
				}
				p.before(rule, fn, "phase stored", ps, "progress notified", np)
			}
		}
		if t.alarm {
			al := callsTo(fn, false, inst+"alarmAfterSynchrony", inst+"alarmAfterSynchronyWithMulti")
			r.Check(len(al) == 1, rule, inst+t.fn+": arms the phase alarm", p.c.Pos(fn.Pos()), "alarmAfterSynchrony", "phase entry no longer arms a timeout")
			for _, fs := range fieldStores(fn, false, "instance", "phaseTimeout") {
				r.Check(strings.Contains(canon(fs.Store.Val), "alarmAfterSynchrony"), rule, inst+t.fn+": phase timeout := the armed alarm", p.c.InstrPos(fs.Store), canon(fs.Store.Val), "timeout := "+canon(fs.Store.Val))
			}
		}
	}
	if al := p.fn(rule, inst+"alarmAfterSynchronyWithMulti"); al != nil {
		sa := callsTo(al, false, "iface:Host.SetAlarm")
		r.Check(len(sa) == 1, rule, inst+"alarmAfterSynchronyWithMulti: sets the host alarm", p.c.Pos(al.Pos()), "SetAlarm", "no alarm is set")
	}
	// emitted shapes
	shape := map[string][3]string{ // value, ticket, justification
		"beginQuality":  {"$0.proposal", "false", "nil"},
		"beginConverge": {"$0.proposal", "true", "$1"},
		"beginPrepare":  {"$0.value", "false", "$1"},
		"beginDecide":   {"$0.value", "false", ""},
		"skipToDecide":  {"$0.value", "false", "$2"},
	}
	for fnm, sh := range shape {
		fn := p.c.Fn(inst + fnm)
		if fn == nil {
			continue
		}
		for _, cs := range callsTo(fn, false, inst+"broadcast") {
			ok := cs.Arg(3) == sh[0] && cs.Arg(4) == sh[1] && (sh[2] == "" || cs.Arg(5) == sh[2])
			r.Check(ok, rule, inst+fnm+": emitted shape (value, ticket, justification)", p.c.InstrPos(cs.Instr), cs.Arg(3)+", "+cs.Arg(4)+", "+cs.Arg(5), "emits value "+cs.Arg(3)+" ticket "+cs.Arg(4)+" justification "+cs.Arg(5))
		}
	}
	// PREPARE without justification only from round 0 (tryQuality); with the winner's justification from tryConverge
	if tq := p.c.Fn(inst + "tryQuality"); tq != nil {
		for _, cs := range callsTo(tq, false, inst+"beginPrepare") {
			r.Check(cs.Arg(1) == "nil", rule, inst+"tryQuality: round-0 PREPARE carries no justification", p.c.InstrPos(cs.Instr), cs.Arg(1), "justification "+cs.Arg(1))
		}
	}
	if tc := p.c.Fn(inst + "tryConverge"); tc != nil {
		for _, cs := range callsTo(tc, false, inst+"beginPrepare") {
			r.Check(strings.HasSuffix(cs.Arg(1), ".Justification") && cs.Arg(1) != "nil", rule, inst+"tryConverge: later-round PREPARE carries the winner's justification", p.c.InstrPos(cs.Instr), cs.Arg(1), "justification "+cs.Arg(1))
		}
	}
	if bd := p.c.Fn(inst + "beginDecide"); bd != nil {
		for _, cs := range callsTo(bd, false, inst+"broadcast") {
			r.Check(strings.HasPrefix(cs.Arg(5), inst+"buildJustification(") || strings.HasPrefix(cs.Arg(5), "phi("+inst+"buildJustification("), rule, inst+"beginDecide: DECIDE carries the COMMIT-quorum justification", p.c.InstrPos(cs.Instr), cs.Arg(5), "justification "+cs.Arg(5))
		}
	}
	if bc := p.c.Fn(inst + "beginConverge"); bc != nil {
		// the justification must be of round current-1 (asserted)
		var pan []Sink
		for _, b := range bc.Blocks {
			for _, in := range b.Instrs {
				if _, ok := in.(*ssa.Panic); ok {
					pan = append(pan, Sink{in, "assertion"})
				}
			}
		}
		r.Check(len(pan) == 1, rule, inst+"beginConverge: asserts the justification is from the previous round", p.c.Pos(bc.Pos()), "assert justification.Vote.Round == Round−1", "assertion removed")
		br := callSinks(bc, "broadcast", inst+"broadcast")
		p.guarded(rule, bc, br, cmpRel("justification from the previous round", `^\$1\.Vote\.Round$`, `^\(\$0\.current\.Instant\.Round - 1\)$`, RelNE))
	}
	// broadcast(): message built from exactly the given fields
	if b := p.fn(rule, inst+"broadcast"); b != nil {
		var pl map[string]ssa.Value
		var mb map[string]ssa.Value
		allValues(b, func(v ssa.Value) {
			if a, ok := v.(*ssa.Alloc); ok {
				switch {
				case strings.HasSuffix(shortType(a.Type()), "gpbft.Payload"):
					pl = structStores(a)
				case strings.HasSuffix(shortType(a.Type()), "gpbft.MessageBuilder"):
					mb = structStores(a)
				}
			}
		})
		want := map[string]string{"Instance": "$0.current.Instant.ID", "Round": "$1", "Phase": "$2", "Value": "$3", "SupplementalData": "*$0.supplementalData"}
		for f, w := range want {
			got := "<unset>"
			if pl != nil && pl[f] != nil {
				got = canon(pl[f])
			}
			r.Check(got == w, rule, inst+"broadcast: payload."+f+" = "+w, p.c.Pos(b.Pos()), got, "payload."+f+" is "+got)
		}
		gotJ, gotPT := "<unset>", "<unset>"
		if mb != nil && mb["Justification"] != nil {
			gotJ = canon(mb["Justification"])
		}
		if mb != nil && mb["PowerTable"] != nil {
			gotPT = canon(mb["PowerTable"])
		}
		r.Check(gotJ == "$5" && gotPT == "$0.powerTable", rule, inst+"broadcast: builder carries the given justification and this instance's power table", p.c.Pos(b.Pos()), gotJ+", "+gotPT, "justification "+gotJ+" power table "+gotPT)
		var bt []Sink
		for _, fs := range fieldStores(b, false, "MessageBuilder", "BeaconForTicket") {
			bt = append(bt, Sink{fs.Store, "ticket requested"})
			r.Check(canon(fs.Store.Val) == "$0.beacon", rule, inst+"broadcast: ticket over this instance's beacon", p.c.InstrPos(fs.Store), canon(fs.Store.Val), "beacon "+canon(fs.Store.Val))
		}
		if len(bt) > 0 {
			p.guarded(rule, b, bt, paramIs("ticket only when requested", 4, avFalse))
		}
	}
}

// ---------------- G21: a participant without power emits nothing ----------------
func (p *P) gNoPowerNoMessage(rule string) {
	r := p.r
	ps := p.fn(rule, "gpbft.MessageBuilder.PrepareSigningInputs")
	if ps == nil {
		return
	}
	acc := okReturns(ps)
	p.guarded(rule, ps, acc,
		cmpRel("participant has non-zero scaled power (the validator rejects zero-power senders)", `^iface:powerTableAccessor\.Get\(\$0\.PowerTable, \$1\)#0$`, `^0$`, RelEQ),
		canonIs("participant has a key", `^iface:powerTableAccessor\.Get\(\$0\.PowerTable, \$1\)#1$`, avNil))
	for _, fs := range fieldStores(ps, false, "SignatureBuilder", "PayloadToSign") {
		r.Check(canon(fs.Store.Val) == "gpbft.Payload.MarshalForSigning(&$0.Payload, $0.NetworkName)", rule, "PrepareSigningInputs: signs the payload's canonical bytes", p.c.InstrPos(fs.Store), canon(fs.Store.Val), "signs "+canon(fs.Store.Val))
	}
	for _, fs := range fieldStores(ps, false, "SignatureBuilder", "VRFToSign") {
		c := canon(fs.Store.Val)
		r.Check(c == "gpbft.vrfSerializeSigInput($0.BeaconForTicket, $0.Payload.Instance, $0.Payload.Round, $0.NetworkName)", rule, "PrepareSigningInputs: ticket input = (beacon, instance, round, network)", p.c.InstrPos(fs.Store), c, "ticket input "+c)
	}
	if b := p.fn(rule, "gpbft.SignatureBuilder.Build"); b != nil {
		for _, ret := range returnsOf(b) {
			if a, ok := retValue(ret, 0).(*ssa.Alloc); ok {
				st := structStores(a)
				want := map[string]string{"Sender": "$0.ParticipantID", "Vote": "$0.Payload", "Signature": "$1", "Ticket": "$2", "Justification": "$0.Justification"}
				for f, w := range want {
					got := "<unset>"
					if st[f] != nil {
						got = canon(st[f])
					}
					r.Check(got == w, rule, "SignatureBuilder.Build: message."+f+" = "+w, p.c.Pos(b.Pos()), got, f+" is "+got)
				}
			}
		}
	}
}
