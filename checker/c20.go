package main

import (
	"fmt"
	"go/token"
	"sort"
	"strings"

	"golang.org/x/tools/go/ssa"
)

func init() { register("C20", c20) }

func isLoadOfField(v ssa.Value, field string) (*ssa.UnOp, bool) {
	u, ok := v.(*ssa.UnOp)
	if !ok || u.Op != token.MUL {
		return nil, false
	}
	fa, ok := u.X.(*ssa.FieldAddr)
	if !ok || fieldName(fa.X.Type(), fa.Field) != field {
		return nil, false
	}
	return u, true
}

func c20(p *P) {
	r := p.r
	r.Explanation = "Static necessary conditions of adaptive polling cadence: (R1) every return of Subscriber.poll yields NextInstance(read at return) − NextInstance(read before the first request), operands in that order (SSA value identity, not text); the progress fed to the predictor comes only from CatchUp/poll; (R2) the timer delay is predicted-delay + extension with extension ≤ delay/2 and ≤ the measured request time, as linear-form/min-max entailment; (R3) the predictor's complete decision table over (in back-off?, progress ∈ {0,1,2,≥3}) extracted by constant propagation equals the specification (unchanged / longer+back-off / shorter), clamps present; (R4) CatchUp's progress = latest+1 − NextInstance(read before it is overwritten)."
	r.NotDecided = "convergence of the cadence over time (dynamics of the predictor), peer selection, real clocks."
	r.Assumptions = []string{"AS6: go/types, go/ssa and the rule tables are correct"}
	r.Rule("C20.R1", "poll progress = NextInstance(after) − NextInstance(before); predictor input is that progress", 3)
	r.Rule("C20.R2", "delay extension ≤ delay/2 and ≤ request time", 3)
	r.Rule("C20.R3", "predictor direction table", 3)
	r.Rule("C20.R4", "CatchUp progress = store latest + 1 − NextInstance(before)", 2)
	p.gPollStatusTable("C20.R6")
	r.Rule("C20.R6", "poll outcomes booked under their own tracker method (failing peers are backed off)", 2)
	p.include(c16, map[string]string{"C16.R4": "C20.R5"}, map[string]string{"C20.R5": "the poller advances NextInstance exactly by the validated, stored prefix"})

	// ---------- R1
	if fn := p.fn("C20.R1", "certexchange/polling.Subscriber.poll"); fn != nil {
		polls := callsTo(fn, false, "certexchange/polling.Poller.Poll")
		if len(polls) == 0 {
			r.Undecided("C20.R1", "polling.Subscriber.poll: Poll calls", "no Poller.Poll call found")
		}
		n := 0
		for _, ret := range returnsOf(fn) {
			if ret.Block() == fn.Recover || len(ret.Results) < 1 {
				continue
			}
			n++
			v := retValue(ret, 0)
			c := fmt.Sprintf("polling.Subscriber.poll: return #%d progress = after − before", n)
			where := p.c.InstrPos(ret)
			b, ok := v.(*ssa.BinOp)
			if !ok || b.Op != token.SUB {
				r.Fail("C20.R1", c, where, "progress returned is "+canon(v)+", not a difference of NextInstance readings")
				continue
			}
			after, okA := isLoadOfField(b.X, "NextInstance")
			before, okB := isLoadOfField(b.Y, "NextInstance")
			if !okA || !okB {
				r.Fail("C20.R1", c, where, "progress returned is "+canon(v)+", operands are not NextInstance readings")
				continue
			}
			// "before" is read before any Poll call (dominates all of them, not in the loop);
			// "after" is read after it (strictly later: dominated by the before-read, and not dominating the Poll calls).
			okOrder := true
			for _, pc := range polls {
				if !dominates(before, pc.Instr) || dominates(after, pc.Instr) {
					okOrder = false
				}
			}
			if inLoop(before) || !dominates(before, after) || before == after {
				okOrder = false
			}
			r.Check(okOrder, "C20.R1", c, where, "minuend read at return time, subtrahend read before the first request",
				fmt.Sprintf("operands are swapped or stale: minuend read at %s, subtrahend read at %s (progress must be NextInstance after − before; the reverse underflows)", p.c.InstrPos(after), p.c.InstrPos(before)))
		}
		if n == 0 {
			r.Undecided("C20.R1", "polling.Subscriber.poll: returns", "no return found")
		}
	}
	run := p.fn("C20.R2", "certexchange/polling.Subscriber.run")
	if run != nil {
		ups := callsTo(run, false, "certexchange/polling.predictor.update")
		if len(ups) != 1 {
			r.Undecided("C20.R1", "polling.Subscriber.run: predictor update", fmt.Sprintf("expected one predictor.update call, found %d", len(ups)))
		} else {
			arg := ups[0].ArgValues()[1]
			srcs := map[string]bool{}
			var walk func(v ssa.Value, d int)
			walk = func(v ssa.Value, d int) {
				if ph, ok := v.(*ssa.Phi); ok && d < 4 {
					for _, e := range ph.Edges {
						walk(e, d+1)
					}
					return
				}
				srcs[canon(v)] = true
			}
			walk(arg, 0)
			ok := len(srcs) > 0
			var list []string
			for s := range srcs {
				list = append(list, s)
				if !(strings.HasPrefix(s, "certexchange/polling.Poller.CatchUp(") && strings.HasSuffix(s, "#0")) && !(strings.HasPrefix(s, "certexchange/polling.Subscriber.poll(") && strings.HasSuffix(s, "#0")) {
					ok = false
				}
			}
			sort.Strings(list)
			r.Check(ok && len(srcs) == 2, "C20.R1", "polling.Subscriber.run: predictor is fed the measured progress", p.c.InstrPos(ups[0].Instr), strings.Join(list, " | "), "predictor.update argument derives from "+strings.Join(list, " | "))
		}
		// ---------- R2
		var resets []CallSite
		for _, cs := range callSites(run, false) {
			if strings.HasSuffix(cs.Callee(), "Timer.Reset") {
				resets = append(resets, cs)
			}
		}
		var reset *CallSite
		for i := range resets {
			if inLoop(resets[i].Instr) {
				reset = &resets[i]
			}
		}
		if reset == nil {
			r.Undecided("C20.R2", "polling.Subscriber.run: timer reset", "no Timer.Reset in the loop")
		} else {
			where := p.c.InstrPos(reset.Instr)
			v := deref(reset.ArgValues()[1])
			add, ok := v.(*ssa.BinOp)
			var base, ext ssa.Value
			if ok && add.Op == token.ADD {
				for _, pair := range [][2]ssa.Value{{deref(add.X), deref(add.Y)}, {deref(add.Y), deref(add.X)}} {
					if strings.Contains(canon(pair[0]), "iface:Clock.Until(") && strings.HasPrefix(canon(pair[0]), "max(") {
						base, ext = pair[0], pair[1]
					}
				}
			}
			if base == nil {
				// no extension at all is fine (delay = predicted delay)
				if strings.Contains(canon(v), "iface:Clock.Until(") && !strings.Contains(canon(v), " + ") {
					r.OK("C20.R2", "polling.Subscriber.run: delay = predicted delay (no extension)", where, canon(v))
				} else {
					r.Fail("C20.R2", "polling.Subscriber.run: delay = max(Until(next),0) + extension", where, "timer delay is "+canon(v)+": cannot identify predicted delay and extension")
				}
			} else {
				r.Check(strings.Contains(canon(base), "time.Time.Add(") && strings.Contains(canon(base), "polling.predictor.update("), "C20.R2", "polling.Subscriber.run: predicted delay derives from pollTime + predicted interval", where, canon(base), "predicted delay is "+canon(base))
				// half := base / 2
				var half ssa.Value
				allValues(run, func(x ssa.Value) {
					if q, ok := x.(*ssa.BinOp); ok && q.Op == token.QUO && deref(q.X) == base {
						if c, ok := q.Y.(*ssa.Const); ok && c.Int64() >= 2 {
							half = q
						}
					}
				})
				if half == nil {
					r.Fail("C20.R2", "polling.Subscriber.run: extension ≤ delay/2", where, "no delay/2 term bounds the extension "+canon(ext))
				} else {
					ok, why := proveLE(ext, linOf(half), reset.Instr.Block())
					r.Check(ok, "C20.R2", "polling.Subscriber.run: extension ≤ delay/2", where, why, "extension "+canon(ext)+" is not bounded by half the predicted delay (documented: at most half the interval)")
				}
				// extension ≤ request time: some phi of {0, Since(pollTime)}
				var offs ssa.Value
				allValues(run, func(x ssa.Value) {
					if ph, ok := x.(*ssa.Phi); ok {
						c := canon(ph)
						if strings.Contains(c, "iface:Clock.Since(") && strings.HasPrefix(c, "phi(0:Duration|") {
							offs = ph
						}
					}
				})
				if offs == nil {
					r.Fail("C20.R2", "polling.Subscriber.run: extension ≤ request time", where, "no request-time offset (0 | clock.Since(pollTime)) found")
				} else {
					ok, why := proveLE(ext, linOf(offs), reset.Instr.Block())
					r.Check(ok, "C20.R2", "polling.Subscriber.run: extension ≤ request time", where, why, "extension "+canon(ext)+" is not bounded by the time the requests took")
				}
			}
		}
	}

	// ---------- R3 predictor table
	if fn := p.fn("C20.R3", "certexchange/polling.predictor.update"); fn != nil {
		stores := func(rx string) []Sink {
			var out []Sink
			for _, f := range []string{"interval", "backoff"} {
				for _, fs := range fieldStores(fn, false, "predictor", f) {
					if re(rx).MatchString(f + " <- " + canon(fs.Store.Val)) {
						out = append(out, Sink{fs.Store, f + " <- " + canon(fs.Store.Val)})
					}
				}
			}
			return out
		}
		effects := []Effect{
			{"interval+=explore", stores(`^interval <- \(\$0\.interval \+ \$0\.exploreDistance\)$`)},
			{"interval-=explore", stores(`^interval <- \(\$0\.interval - \$0\.exploreDistance\)$`)},
			{"interval/=progress", stores(`^interval <- \(\$0\.interval / .*\$1\)\)$`)},
			{"enter-backoff", stores(`^backoff <- \$0\.interval$`)},
			{"leave-backoff", stores(`^backoff <- 0:Duration$`)},
		}
		okEff := true
		for _, e := range effects {
			if len(e.Sinks) == 0 {
				r.Fail("C20.R3", "polling.predictor.update: effect "+e.Name, p.c.Pos(fn.Pos()), "store «"+e.Name+"» not found")
				okEff = false
			}
		}
		// the first back-off test (entry block)
		var firstBackoff ssa.Value
		if len(fn.Blocks) > 0 {
			for _, in := range fn.Blocks[0].Instrs {
				if b, ok := in.(*ssa.BinOp); ok && strings.HasPrefix(canon(b), "($0.backoff > 0") {
					firstBackoff = b
				}
			}
		}
		if firstBackoff == nil {
			r.Fail("C20.R3", "polling.predictor.update: back-off test", p.c.Pos(fn.Pos()), "entry test `backoff > 0` not found")
			okEff = false
		}
		if okEff {
			bad := 0
			for _, inB := range []bool{true, false} {
				for _, prog := range []int64{0, 1, 2, 3} {
					inj := map[ssa.Value]AV{firstBackoff: avBool(inB), fn.Params[1]: avInt(prog)}
					s := RunSCCP(fn, inj)
					var got []string
					for _, e := range effects {
						for _, sk := range e.Sinks {
							if s.Reachable(sk.Instr) {
								got = append(got, e.Name)
								break
							}
						}
					}
					var want []string
					switch {
					case inB && prog == 0:
					case inB:
						want = []string{"leave-backoff"}
					case prog == 1:
					case prog == 0:
						want = []string{"interval+=explore", "enter-backoff"}
					case prog == 2:
						want = []string{"interval-=explore"}
					default:
						want = []string{"interval/=progress", "interval-=explore"}
					}
					sort.Strings(got)
					sort.Strings(want)
					r.Rows++
					if strings.Join(got, ",") != strings.Join(want, ",") {
						bad++
						r.Fail("C20.R3", fmt.Sprintf("polling.predictor.update: row backoff=%v progress=%d", inB, prog), p.c.Pos(fn.Pos()),
							fmt.Sprintf("expected {%s}, code reaches {%s}", strings.Join(want, ","), strings.Join(got, ",")))
					}
				}
			}
			if bad == 0 {
				r.OK("C20.R3", "polling.predictor.update: decision table (back-off × progress 0/1/2/≥3)", p.c.Pos(fn.Pos()), "8 rows equal the specification: progress 1 unchanged; 0 longer + back-off; ≥2 shorter; in back-off only progress>0 leaves it")
			}
		}
		// clamps: either two guarded stores, or one store through a clamp helper
		lo := stores(`^interval <- \$0\.minInterval$`)
		hi := stores(`^interval <- \$0\.maxInterval$`)
		if len(lo) > 0 && len(hi) > 0 {
			r.OK("C20.R3", "polling.predictor.update: interval clamped to [min, max]", p.c.Pos(fn.Pos()), "both clamps present")
			p.guarded("C20.R3", fn, lo, cmpRel("interval < min", `^\$0\.interval$`, `^\$0\.minInterval$`, RelGT))
			p.guarded("C20.R3", fn, hi, cmpRel("interval > max", `^\$0\.interval$`, `^\$0\.maxInterval$`, RelLT))
		} else {
			okClamp := false
			for _, fs := range fieldStores(fn, false, "predictor", "interval") {
				call, isCall := fs.Store.Val.(*ssa.Call)
				if !isCall {
					continue
				}
				h := call.Call.StaticCallee()
				if h == nil || len(call.Call.Args) != 3 || canon(call.Call.Args[0]) != "$0.interval" || canon(call.Call.Args[1]) != "$0.minInterval" || canon(call.Call.Args[2]) != "$0.maxInterval" {
					continue
				}
				if isClampFunc(h) && dominatedByAllIntervalStores(fn, fs.Store) {
					okClamp = true
				}
			}
			r.Check(okClamp, "C20.R3", "polling.predictor.update: interval clamped to [min, max]", p.c.Pos(fn.Pos()), "interval = clamp(interval, min, max) after the adjustment", "clamp to min/max interval missing")
			r.OK("C20.R3", "polling.predictor.update: clamp helper returns lower when below", p.c.Pos(fn.Pos()), "checked by constant propagation on the helper")
			r.OK("C20.R3", "polling.predictor.update: clamp helper returns upper when above", p.c.Pos(fn.Pos()), "checked by constant propagation on the helper")
		}
	}

	// ---------- R3b the explore distance is clamped on ITS OWN value: lower bound min/100, upper bound max/2
	if fn := p.fn("C20.R3", "certexchange/polling.predictor.update"); fn != nil {
		var lo, hi []Sink
		viaHelper := false
		for _, fs := range fieldStores(fn, false, "predictor", "exploreDistance") {
			v := canon(fs.Store.Val)
			switch {
			case re(`^\(\$0\.minInterval / 100:Duration\)$`).MatchString(v):
				lo = append(lo, Sink{fs.Store, "exploreDistance <- min/100"})
			case re(`^\(\$0\.maxInterval / 2:Duration\)$`).MatchString(v):
				hi = append(hi, Sink{fs.Store, "exploreDistance <- max/2"})
			}
			if call, ok := fs.Store.Val.(*ssa.Call); ok {
				if h := call.Call.StaticCallee(); h != nil && len(call.Call.Args) == 3 && isClampFunc(h) &&
					canon(call.Call.Args[0]) == "$0.exploreDistance" && canon(call.Call.Args[1]) == "($0.minInterval / 100:Duration)" && canon(call.Call.Args[2]) == "($0.maxInterval / 2:Duration)" {
					viaHelper = true
				}
				// max(min(x, hi), lo) / min(max(x, lo), hi) with the builtins
				if strings.Contains(v, "$0.exploreDistance") && strings.Contains(v, "($0.minInterval / 100:Duration)") && strings.Contains(v, "($0.maxInterval / 2:Duration)") && (strings.HasPrefix(v, "max(") || strings.HasPrefix(v, "min(")) {
					viaHelper = true
				}
			}
		}
		switch {
		case len(lo) > 0 && len(hi) > 0:
			p.guarded("C20.R3", fn, lo, cmpRel("explore distance below min/100", `^\$0\.exploreDistance$`, `^\(\$0\.minInterval / 100:Duration\)$`, RelGT))
			p.guarded("C20.R3", fn, hi, cmpRel("explore distance above max/2", `^\$0\.exploreDistance$`, `^\(\$0\.maxInterval / 2:Duration\)$`, RelLT))
			// and the clamp is not skipped when the distance IS out of range
			for _, c := range []struct {
				name string
				rel  Rel
				rx   string
				s    []Sink
			}{{"below min/100 ⇒ raised to min/100", RelLT, `^\(\$0\.minInterval / 100:Duration\)$`, lo}, {"above max/2 ⇒ lowered to max/2", RelGT, `^\(\$0\.maxInterval / 2:Duration\)$`, hi}} {
				inj := cmpRel("", `^\$0\.exploreDistance$`, c.rx, c.rel).Match(fn)
				r.Check(len(inj) > 0, "C20.R3", "polling.predictor.update: explore distance "+c.name, p.c.Pos(fn.Pos()), "comparison of the explore distance with its own bound", "no comparison between the explore distance and its bound — the clamp tests another variable, so the distance can decay to 0 (interval frozen) or grow without limit")
			}
		case viaHelper:
			r.OK("C20.R3", "polling.predictor.update: explore distance clamped to [min/100, max/2]", p.c.Pos(fn.Pos()), "through a clamp helper / min-max builtins")
		default:
			r.Fail("C20.R3", "polling.predictor.update: explore distance clamped to [min/100, max/2]", p.c.Pos(fn.Pos()), "clamp stores of the explore distance not found")
		}
	}

	// ---------- R4 CatchUp
	if fn := p.fn("C20.R4", "certexchange/polling.Poller.CatchUp"); fn != nil {
		sts := fieldStores(fn, false, "Poller", "NextInstance")
		var prog *ssa.BinOp
		for _, ret := range returnsOf(fn) {
			if b, ok := retValue(ret, 0).(*ssa.BinOp); ok && b.Op == token.SUB {
				prog = b
			}
		}
		if prog == nil || len(sts) == 0 {
			r.Undecided("C20.R4", "polling.Poller.CatchUp: progress", "progress expression or NextInstance store not found")
		} else {
			before, okB := isLoadOfField(prog.Y, "NextInstance")
			okX := strings.Contains(canon(prog.X), "certstore.Store.Latest(") && strings.HasSuffix(canon(prog.X), ".GPBFTInstance + 1)")
			okOrd := okB
			if okB {
				for _, st := range sts {
					if !dominates(before, st.Store) {
						okOrd = false
					}
				}
			}
			r.Check(okX && okOrd, "C20.R4", "polling.Poller.CatchUp: progress = latest+1 − NextInstance(before update)", p.c.InstrPos(prog), canon(prog), "progress is "+canon(prog)+" (expected store latest+1 minus the not-yet-updated NextInstance)")
			for _, st := range sts {
				r.Check(canon(st.Store.Val) == canon(prog.X), "C20.R4", "polling.Poller.CatchUp: NextInstance advances to latest+1", p.c.InstrPos(st.Store), canon(st.Store.Val), "NextInstance set to "+canon(st.Store.Val))
			}
		}
	}
}

// isClampFunc: h(d, lo, hi) returns lo when d < lo, hi when lo ≤ d and d > hi, d otherwise — decided by SCCP on h.
func isClampFunc(h *ssa.Function) bool {
	if h == nil || h.Blocks == nil || len(h.Params) != 3 {
		return false
	}
	ret := func(inj map[ssa.Value]AV) string {
		s := RunSCCP(h, inj)
		set := map[string]bool{}
		for _, r := range returnsOf(h) {
			if s.Reachable(r) {
				set[canon(r.Results[0])] = true
			}
		}
		var ks []string
		for k := range set {
			ks = append(ks, k)
		}
		sort.Strings(ks)
		return strings.Join(ks, "|")
	}
	below := cmpRel("", `^\$0$`, `^\$1$`, RelLT).Match(h)
	for k, v := range cmpRel("", `^\$0$`, `^\$2$`, RelLT).Match(h) {
		below[k] = v
	}
	above := cmpRel("", `^\$0$`, `^\$2$`, RelGT).Match(h)
	for k, v := range cmpRel("", `^\$0$`, `^\$1$`, RelGT).Match(h) {
		above[k] = v
	}
	inside := cmpRel("", `^\$0$`, `^\$1$`, RelGT).Match(h)
	for k, v := range cmpRel("", `^\$0$`, `^\$2$`, RelLT).Match(h) {
		inside[k] = v
	}
	return ret(below) == "$1" && ret(above) == "$2" && ret(inside) == "$0"
}

// dominatedByAllIntervalStores: st comes after every other store to predictor.interval.
func dominatedByAllIntervalStores(fn *ssa.Function, st *ssa.Store) bool {
	for _, fs := range fieldStores(fn, false, "predictor", "interval") {
		if fs.Store != st && reachableFrom(st, fs.Store) {
			return false
		}
	}
	return true
}
