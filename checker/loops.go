package main

import (
	"fmt"
	"go/token"
	"sort"
	"strings"

	"golang.org/x/tools/go/ssa"
)

// natural loop of a header node: nodes that can reach the header without
// leaving the set dominated by it (on the spliced CFG).
func loopNodes(h *VNode) map[*VNode]bool {
	body := map[*VNode]bool{h: true}
	var stack []*VNode
	for _, p := range h.Preds {
		if h.Dominates(p) {
			stack = append(stack, p)
		}
	}
	for len(stack) > 0 {
		b := stack[len(stack)-1]
		stack = stack[:len(stack)-1]
		if body[b] {
			continue
		}
		body[b] = true
		stack = append(stack, b.Preds...)
	}
	return body
}

func loopBlocks(header *ssa.BasicBlock) map[int]bool {
	vf := vfuncOf(header.Parent())
	out := map[int]bool{}
	for n := range loopNodes(vf.first[header]) {
		if n.Fn == header.Parent() {
			out[n.Block.Index] = true
		}
	}
	return out
}

// loopHeaderNode finds the innermost loop header whose loop contains n (nil if none).
func loopHeaderNode(vf *VFunc, n *VNode) *VNode {
	var best *VNode
	bestSize := 1 << 30
	for _, h := range vf.Nodes {
		isHeader := false
		for _, p := range h.Preds {
			if h.Dominates(p) {
				isHeader = true
			}
		}
		if !isHeader {
			continue
		}
		lb := loopNodes(h)
		if lb[n] && len(lb) < bestSize {
			best, bestSize = h, len(lb)
		}
	}
	return best
}

// loopHeaderOf: header block of the innermost loop containing b.
func loopHeaderOf(b *ssa.BasicBlock) *ssa.BasicBlock {
	if b == nil {
		return nil
	}
	vf := vfuncOf(b.Parent())
	h := loopHeaderNode(vf, vf.first[b])
	if h == nil {
		return nil
	}
	return h.Block
}

// LoopExit describes one conditional edge leaving a loop.
type LoopExit struct {
	If   *ssa.If
	Cond string
	Kind string // "induction" | "other"
}

// loopExits classifies the exit conditions of the loop headed by h. An exit
// is of kind "induction" when its condition compares an induction phi of the
// header (or a range iterator's ok flag) with a loop-invariant value.
func loopExits(h *ssa.BasicBlock) (exits []LoopExit, body map[int]bool) {
	vf := vfuncOf(h.Parent())
	hn := vf.first[h]
	nodes := loopNodes(hn)
	body = map[int]bool{}
	for n := range nodes {
		body[n.Idx] = true
	}
	panics := func(x *VNode) bool {
		if len(x.Succs) != 0 || len(x.Instrs) == 0 {
			return false
		}
		_, isPanic := x.Instrs[len(x.Instrs)-1].(*ssa.Panic)
		return isPanic
	}
	for n := range nodes {
		if len(n.Instrs) == 0 || len(n.Succs) != 2 {
			continue
		}
		// range-over-func loop body: "return true" with the sequence exhausted is the loop's regular exit,
		// provided the iterator is one of the standard whole-sequence iterators
		if ret, ok := n.Instrs[len(n.Instrs)-1].(*ssa.Return); ok && isRangeBody(n.Fn) {
			if !nodes[n.Succs[0]] || !nodes[n.Succs[1]] {
				kind := "other"
				if site := helperSite[n.Fn]; site != nil {
					if c, ok := site.Call.Value.(*ssa.Call); ok && c.Call.StaticCallee() != nil {
						switch strings.SplitN(funcName(c.Call.StaticCallee()), "[", 2)[0] {
						case "slices.Backward", "slices.All", "slices.Values", "maps.Keys", "maps.Values", "maps.All":
							kind = "induction"
						}
					}
				}
				exits = append(exits, LoopExit{nil, "sequence exhausted at " + canon(ret.Results[0]), kind})
			}
			continue
		}
		iff, ok := n.Instrs[len(n.Instrs)-1].(*ssa.If)
		if !ok {
			continue
		}
		out0, out1 := !nodes[n.Succs[0]], !nodes[n.Succs[1]]
		if (out0 && panics(n.Succs[0]) && !out1) || (out1 && panics(n.Succs[1]) && !out0) {
			continue // an internal assertion, not a way out of the loop
		}
		leaves := out0 || out1
		if !leaves {
			continue
		}
		exits = append(exits, LoopExit{iff, canon(iff.Cond), classifyExit(iff.Cond, h, nodes)})
	}
	sort.Slice(exits, func(i, j int) bool { return exits[i].Cond < exits[j].Cond })
	return
}

func classifyExit(cond ssa.Value, h *ssa.BasicBlock, body map[*VNode]bool) string {
	switch x := cond.(type) {
	case *ssa.BinOp:
		switch x.Op {
		case token.LSS, token.LEQ, token.GTR, token.GEQ, token.NEQ, token.EQL:
			if (isInductionPhi(x.X, h) && loopInvariant(x.Y, body)) || (isInductionPhi(x.Y, h) && loopInvariant(x.X, body)) {
				return "induction"
			}
		}
	case *ssa.Extract:
		// ok flag of a range/next iterator
		if _, ok := x.Tuple.(*ssa.Next); ok && x.Index == 0 {
			return "induction"
		}
	}
	return "other"
}

func isInductionPhi(v ssa.Value, h *ssa.BasicBlock) bool {
	// phi ± const (the lowering of range-over-slice compares phi+1 with len)
	if b, ok := v.(*ssa.BinOp); ok && (b.Op == token.ADD || b.Op == token.SUB) {
		if _, isC := b.Y.(*ssa.Const); isC {
			v = b.X
		}
	}
	ph, ok := v.(*ssa.Phi)
	if !ok || ph.Block() != h {
		return false
	}
	// every cyclic edge is phi ± const
	for _, e := range ph.Edges {
		if !dependsOn(e, ph, map[ssa.Value]bool{}, 0) {
			continue
		}
		b, ok := e.(*ssa.BinOp)
		if !ok || (b.Op != token.ADD && b.Op != token.SUB) {
			return false
		}
		if b.X != ph {
			return false
		}
		if _, isC := b.Y.(*ssa.Const); !isC {
			return false
		}
	}
	return true
}

func loopInvariant(v ssa.Value, body map[*VNode]bool) bool {
	return loopInvariantD(v, body, 0)
}

// loopInvariantD: defined outside the loop, or recomputed each iteration from
// invariant operands (arithmetic, len, loads of fields no store in the loop touches).
func loopInvariantD(v ssa.Value, body map[*VNode]bool, d int) bool {
	in, ok := v.(ssa.Instruction)
	if !ok {
		return true // const, param, global
	}
	if in.Block() == nil {
		return true
	}
	_, n := nodeOfInstr(in)
	if n == nil || !body[n] {
		return true
	}
	if d > 6 {
		return false
	}
	switch x := v.(type) {
	case *ssa.BinOp:
		return loopInvariantD(x.X, body, d+1) && loopInvariantD(x.Y, body, d+1)
	case *ssa.Convert:
		return loopInvariantD(x.X, body, d+1)
	case *ssa.FieldAddr:
		return loopInvariantD(x.X, body, d+1)
	case *ssa.Call:
		if b, ok := x.Call.Value.(*ssa.Builtin); ok && (b.Name() == "len" || b.Name() == "cap") {
			return loopInvariantD(x.Call.Args[0], body, d+1)
		}
	case *ssa.UnOp:
		if x.Op != token.MUL {
			return loopInvariantD(x.X, body, d+1)
		}
		if !loopInvariantD(x.X, body, d+1) {
			return false
		}
		addr := canon(x.X)
		for bn := range body {
			for _, bi := range bn.Instrs {
				if st, ok := bi.(*ssa.Store); ok && canon(st.Addr) == addr {
					return false
				}
			}
		}
		return true
	}
	return false
}

// fullRangeLoop checks that the loop containing `at` visits every index: all
// of its exits are induction exits (plus exits matching an allow-listed
// condition such as ctx.Err() == nil), and the work instruction is executed on
// every iteration (it is not under a non-allow-listed condition inside the body).
func (p *P) fullRangeLoop(rule, construct string, at ssa.Instruction, allowExit func(cond string) bool) {
	h := loopHeaderOf(at.Block())
	if h == nil {
		p.r.Fail(rule, construct, p.c.InstrPos(at), "the per-element work is not inside a loop")
		return
	}
	exits, _ := loopExits(h)
	var bad []string
	nInd := 0
	for _, e := range exits {
		if e.Kind == "induction" {
			nInd++
			continue
		}
		if allowExit != nil && allowExit(e.Cond) {
			continue
		}
		where := ""
		if e.If != nil {
			where = " at " + p.c.InstrPos(e.If)
		}
		bad = append(bad, e.Cond+where)
	}
	if len(bad) > 0 || nInd == 0 {
		p.r.Fail(rule, construct, p.c.InstrPos(at), "loop can stop early on a data-dependent condition: "+strings.Join(bad, "; "))
		return
	}
	p.r.OK(rule, construct, p.c.InstrPos(at), fmt.Sprintf("loop exits only on its induction variable (%d exit conditions examined)", len(exits)))
}

// ---- lock discipline (LOCK) ----

// heldAt: is instruction `at` executed with the mutex (canonical address
// muAddr, e.g. "&$0.mu") held? True when a Lock()/RLock() call on it dominates
// `at` and no explicit (non-deferred) Unlock on it can execute between.
func heldAt(fn *ssa.Function, at ssa.Instruction, muAddr string, exclusive bool) bool {
	var locks, unlocks []ssa.Instruction
	for _, cs := range callSites(fn, false) {
		n := cs.Callee()
		if _, isDefer := cs.Instr.(*ssa.Defer); isDefer {
			continue
		}
		if cs.Arg(0) != muAddr {
			continue
		}
		switch {
		case strings.HasSuffix(n, "Mutex.Lock"):
			locks = append(locks, cs.Instr)
		case strings.HasSuffix(n, "Mutex.RLock") && !exclusive:
			locks = append(locks, cs.Instr)
		case strings.HasSuffix(n, "Mutex.Unlock"), strings.HasSuffix(n, "Mutex.RUnlock"):
			unlocks = append(unlocks, cs.Instr)
		}
	}
	for _, l := range locks {
		if !dominates(l, at) {
			continue
		}
		ok := true
		for _, u := range unlocks {
			if reachableFrom(l, u) && reachableFrom(u, at) {
				ok = false
			}
		}
		if ok {
			return true
		}
	}
	return false
}

// heldAtOrByCallers: the lock is held at `at`, or fn is an unexported method
// reached only through call sites (same receiver) at which it is held.
func (p *P) heldAtOrByCallers(fn *ssa.Function, at ssa.Instruction, muAddr string, exclusive bool, depth int) bool {
	if heldAt(fn, at, muAddr, exclusive) {
		return true
	}
	n := fn.Name()
	if depth > 2 || n == "" || (n[0] >= 'A' && n[0] <= 'Z') || fn.Signature.Recv() == nil || !strings.HasPrefix(muAddr, "&$0.") {
		return false
	}
	callers := p.callersOf(funcName(fn))
	if len(callers) == 0 {
		return false
	}
	for _, cs := range callers {
		if cs.Instr == nil || cs.Arg(0) != "$0" {
			return false
		}
		if !p.heldAtOrByCallers(cs.Fn, cs.Instr, muAddr, exclusive, depth+1) {
			return false
		}
	}
	return true
}
