package main

import (
	"fmt"
	"go/token"
	"go/types"
	"strings"

	"golang.org/x/tools/go/ssa"
)

func init() { register("C09", c09) }

// checkpointWriter checks, in fn, that every putPowerTable(x, table) whose
// instance x is not the store's first instance is gated by x % frequency == 0
// with the SAME x (writer side of the checkpoint agreement).
func (p *P) checkpointWriter(rule string, fn *ssa.Function) {
	name := funcName(fn)
	n := 0
	for _, cs := range callsTo(fn, false, "certstore.Store.putPowerTable") {
		inst := cs.ArgValues()[2]
		n++
		// find an If on (REM(inst', freq) == 0) dominating the call, with lin(inst') == lin(inst)
		ok := false
		detail := ""
		for b := cs.Instr.Block(); b != nil; b = b.Idom() {
			if len(b.Preds) != 1 {
				continue
			}
			pb := b.Preds[0]
			iff, isIf := pb.Instrs[len(pb.Instrs)-1].(*ssa.If)
			if !isIf {
				continue
			}
			cmp, isCmp := iff.Cond.(*ssa.BinOp)
			if !isCmp || !(cmp.Op == token.EQL && pb.Succs[0] == b || cmp.Op == token.NEQ && pb.Succs[1] == b) {
				continue
			}
			rem, isRem := cmp.X.(*ssa.BinOp)
			z, isZ := cmp.Y.(*ssa.Const)
			if !isRem || !isZ || rem.Op != token.REM || z.Int64() != 0 {
				continue
			}
			detail = canon(cmp)
			if linOf(rem.X).equal(linOf(inst)) && strings.HasSuffix(canon(rem.Y), ".powerTableFrequency") {
				ok = true
			}
		}
		p.r.Check(ok, rule, fmt.Sprintf("%s: checkpoint written for instance x iff x %% frequency == 0 (same x)", name), p.c.InstrPos(cs.Instr),
			"gate "+detail+" on the instance written "+canon(inst),
			"power table stored for instance "+canon(inst)+" but the gate is "+detail+" — writer and reader (GetPowerTable: x − x % frequency) would disagree on which instances have checkpoints")
	}
	if n == 0 {
		p.r.Undecided(rule, name+": checkpoint write", "no putPowerTable call found")
	}
}

func c09(p *P) {
	r := p.r
	r.Explanation = "Static necessary conditions of a gap-free, immutable certificate store: (R1) in Put no datastore write and no in-memory update is reachable unless the certificate is at/after the first instance, non-empty, well-formed, exactly the successor, its delta applies, the resulting table's CID equals the committed one and the table is non-empty — each decided by failure-injection SCCP on every path (a check that only runs on some paths is reported); (R2) the stale-put path writes nothing and returns nil; (R3) who may write the in-memory head and what it is set to; (R4) subscriber notification: capacity-1 channels, drain-then-send, all sends and map updates under the exclusive lock; (R5) checkpoint writer/reader agreement as linear forms; (R6) GetPowerTable = table at the nearest checkpoint + deltas of exactly the certificates in between; (R7) readers and writers use the same key constructors with distinct, fixed-width prefixes; GetRange returns certificates in ascending order from the requested start."
	r.NotDecided = "step-by-step equivalence with a reference model over histories; eventual delivery to subscribers; datastore behaviour."
	r.Assumptions = []string{"AS1: datastore operations are atomic and do not fail spuriously", "AS6: go/types, go/ssa and the rule tables are correct"}
	r.Rule("C09.R1", "Put: every write/update gated by all admission checks on every path", 14)
	r.Rule("C09.R2", "Put: re-submitting a stored instance writes nothing and succeeds", 2)
	r.Rule("C09.R3", "in-memory head: writers and values", 6)
	r.Rule("C09.R4", "subscribers: capacity 1, drain-then-send, under the write lock", 5)
	r.Rule("C09.R5", "checkpoint writer/reader agreement", 3)
	r.Rule("C09.R6", "GetPowerTable: checkpoint + deltas of the certificates in between; range guards", 5)
	r.Rule("C09.R7", "key constructors shared by readers and writers; GetRange order", 5)
	p.include(c10, map[string]string{"C10.R1": "C09.R9", "C10.R2": "C09.R9b", "C10.R5": "C09.R9c"}, map[string]string{"C09.R9": "Put writes certificate, checkpoint, then the pointer (a reopened store sees a complete history)", "C09.R9b": "a store is created table-first, so that an interrupted creation can be repeated or opened", "C09.R9c": "head updated after the pointer"})
	p.include(c04, map[string]string{"C04.R5": "C09.R8", "C04.R6": "C09.R8b"}, map[string]string{"C09.R8": "delta application (used by Put and GetPowerTable) rejects malformed deltas, works on a fresh map", "C09.R8b": "delta construction"})

	writers := p.dsWriters()
	put := p.fn("C09.R1", "certstore.Store.Put")
	if put != nil {
		all := p.writeSites(put, writers)
		var mem []Sink
		for _, f := range []string{"latestCertificate", "latestPowerTable"} {
			for _, fs := range fieldStores(put, false, "Store", f) {
				mem = append(mem, Sink{fs.Store, "store to Store." + f})
			}
		}
		var sends []Sink
		for _, b := range put.Blocks {
			for _, in := range b.Instrs {
				if s, ok := in.(*ssa.Send); ok {
					sends = append(sends, Sink{s, "subscriber notification"})
				}
			}
		}
		sinks := append(append(append([]Sink{}, all...), mem...), sends...)
		next := `^phi\(\(\$0\.latestCertificate\.GPBFTInstance \+ 1\)\|\$0\.firstInstance\)$|^phi\(\$0\.firstInstance\|\(\$0\.latestCertificate\.GPBFTInstance \+ 1\)\)$`
		newPT := `phi\(.*certs\.ApplyPowerTableDiffs\(\$0\.latestPowerTable, \[\$2\.PowerTableDelta\]\)#0`
		p.guarded("C09.R1", put, sinks,
			cmpRel("instance ≥ first instance", `^\$2\.GPBFTInstance$`, `^\$0\.firstInstance$`, RelLT),
			callResult("chain non-empty", "gpbft.ECChain.IsZero", `\$2\.ECChain`, -1, avTrue),
			errFails("chain well-formed", "gpbft.ECChain.Validate", `\$2\.ECChain`),
			cmpRel("not beyond the successor (no gap)", `^\$2\.GPBFTInstance$`, next, RelGT),
			cmpRel("not an already stored instance", `^\$2\.GPBFTInstance$`, next, RelLT),
			errFails("next table CID computable", "certs.MakePowerTableCID", ""),
			cmpRel("delta reproduces the committed next power table", `^certs\.MakePowerTableCID\(`+newPT+`.*\)#0$`, `^\$2\.SupplementalData\.PowerTable$`, RelNE),
			cmpRel("next power table non-empty", `^len\(`+newPT+`.*\)$`, `^0$`, RelEQ),
		)
		p.guardedAfter("C09.R1", put, sinks, errFails("delta applies", "certs.ApplyPowerTableDiffs", ""))
		// the delta is applied whenever it is non-empty
		for _, cs := range callsTo(put, false, "certs.ApplyPowerTableDiffs") {
			r.Check(cs.Arg(0) == "$0.latestPowerTable" && cs.Arg(1) == "[$2.PowerTableDelta]", "C09.R1", "certstore.Store.Put: applies the certificate's delta to the latest power table", p.c.InstrPos(cs.Instr), cs.Arg(0)+", "+cs.Arg(1), "ApplyPowerTableDiffs("+cs.Arg(0)+", "+cs.Arg(1)+")")
			inj := cmpRel("", `^len\(\$2\.PowerTableDelta\)$`, `^0$`, RelGT).Match(put)
			s := RunSCCP(put, inj)
			viaSkip := false
			// with a non-empty delta the apply call must be on every path to the first write
			if len(all) > 0 {
				okm, _ := mustPassTo(put, s, []ssa.Instruction{cs.Instr}, all[0].Instr)
				viaSkip = !okm
			}
			r.Check(!viaSkip, "C09.R1", "certstore.Store.Put: a non-empty delta is always applied before writing", p.c.InstrPos(cs.Instr), "apply call on every path when len(delta) > 0", "a non-empty delta can be skipped")
		}
		// R2
		inj := cmpRel("", `^\$2\.GPBFTInstance$`, next, RelLT).Match(put)
		if len(inj) > 0 {
			s := RunSCCP(put, inj)
			okNil := false
			for _, sk := range okReturns(put) {
				if s.Reachable(sk.Instr) {
					okNil = true
				}
			}
			r.Check(okNil, "C09.R2", "certstore.Store.Put: re-submitting a stored instance returns nil", p.c.Pos(put.Pos()), "nil return reachable when instance < next", "stale put no longer succeeds silently")
			wr := false
			for _, sk := range sinks {
				if s.Reachable(sk.Instr) {
					wr = true
				}
			}
			r.Check(!wr, "C09.R2", "certstore.Store.Put: re-submitting a stored instance changes nothing", p.c.Pos(put.Pos()), "no write/update/notification reachable when instance < next", "a stale put performs writes or updates")
		}
		// R3 values
		for _, fs := range fieldStores(put, false, "Store", "latestCertificate") {
			r.Check(canon(fs.Store.Val) == "$2", "C09.R3", "certstore.Store.Put: latest certificate := the admitted certificate", p.c.InstrPos(fs.Store), "$2", "latestCertificate set to "+canon(fs.Store.Val))
		}
		for _, fs := range fieldStores(put, false, "Store", "latestPowerTable") {
			r.Check(re(`^`+newPT).MatchString(canon(fs.Store.Val)), "C09.R3", "certstore.Store.Put: latest power table := the table the CID was checked on", p.c.InstrPos(fs.Store), canon(fs.Store.Val), "latestPowerTable set to "+canon(fs.Store.Val))
		}
		for _, cs := range callsTo(put, false, "certstore.Store.writeInstanceNumber") {
			r.Check(cs.Arg(3) == "$2.GPBFTInstance", "C09.R3", "certstore.Store.Put: latest pointer := the admitted instance", p.c.InstrPos(cs.Instr), cs.Arg(3), "pointer set to "+cs.Arg(3))
		}
		for _, cs := range callsTo(put, false, "iface:Datastore.Put") {
			if strings.Contains(cs.Arg(2), "keyForCert(") {
				r.Check(strings.HasSuffix(cs.Arg(2), "keyForCert($0, $2.GPBFTInstance)") && strings.Contains(cs.Arg(3), "bytes.Buffer.Bytes("), "C09.R3", "certstore.Store.Put: certificate stored under its own instance key", p.c.InstrPos(cs.Instr), cs.Arg(2), "certificate stored under "+cs.Arg(2))
			}
		}
		for _, cs := range callsTo(put, false, "certs.FinalityCertificate.MarshalCBOR") {
			r.Check(cs.Arg(0) == "$2", "C09.R3", "certstore.Store.Put: the admitted certificate is what is serialised", p.c.InstrPos(cs.Instr), cs.Arg(0), "serialises "+cs.Arg(0))
		}
		// the latest pointer is the last write: a Put that fails leaves the pointer where it was
		ptrW := relabel(filterSinks(all, `^certstore\.Store\.writeInstanceNumber\(.*certstore\.certStoreLatestKey`), "latest-pointer write")
		p.notAfter("C09.R3", put, "latest-pointer write", ptrW, "datastore write", all)
		p.before("C09.R3", put, "latest-pointer write", ptrW, "in-memory head update", mem)
		// R4
		for _, sk := range sends {
			snd := sk.Instr.(*ssa.Send)
			r.Check(heldAt(put, snd, "&$0.mu", true), "C09.R4", "certstore.Store.Put: notification sent under the write lock", p.c.InstrPos(snd), "mu.Lock held", "send without the exclusive lock")
			drained := false
			for _, b := range put.Blocks {
				for _, in := range b.Instrs {
					if sel, ok := in.(*ssa.Select); ok && !sel.Blocking {
						for _, st := range sel.States {
							if st.Send == nil && st.Chan == snd.Chan && dominates(sel, snd) && loopHeaderOf(sel.Block()) == loopHeaderOf(snd.Block()) {
								drained = true
							}
						}
					}
				}
			}
			r.Check(drained, "C09.R4", "certstore.Store.Put: non-blocking drain precedes the send on the same channel", p.c.InstrPos(snd), "select{case <-ch: default:} dominates ch <- cert in the same iteration", "the subscriber channel is not drained before the send — a slow subscriber would block the writer")
			r.Check(canon(snd.X) == "$0.latestCertificate" || canon(snd.X) == "$2", "C09.R4", "certstore.Store.Put: subscribers receive the latest certificate", p.c.InstrPos(snd), canon(snd.X), "sends "+canon(snd.X))
		}
		if len(sends) == 0 {
			r.Fail("C09.R4", "certstore.Store.Put: subscribers notified", p.c.Pos(put.Pos()), "Put never sends to subscribers")
		}
		// R5 writer
		p.checkpointWriter("C09.R5", put)
	}
	// R3 who writes
	p.fieldWriters("C09.R3", "Store", "latestCertificate", "certstore.open", "certstore.Store.Put")
	p.fieldWriters("C09.R3", "Store", "latestPowerTable", "certstore.OpenOrCreateStore", "certstore.CreateStore", "certstore.OpenStore", "certstore.Store.Put")

	// R3 at open: with a latest certificate L the in-memory table is the table of instance L+1, whatever L is
	// relative to the first instance (decided for L < first, L = first, L > first); only without one the initial table.
	for _, name := range []string{"certstore.OpenStore", "certstore.OpenOrCreateStore"} {
		of := p.fn("C09.R3", name)
		if of == nil {
			continue
		}
		for _, rel := range []Rel{RelLT, RelEQ, RelGT} {
			relName := map[Rel]string{RelLT: "<", RelEQ: "=", RelGT: ">"}[rel]
			inj := canonIs("", `\.latestCertificate$`, avNonNil).with(cmpRel("", `\.latestCertificate\.GPBFTInstance$`, `(\.firstInstance|^\$2|readInstanceNumber\(.*\)#0)$`, rel)).all(of)
			s := RunSCCP(of, inj)
			n := 0
			for _, fs := range fieldStores(of, false, "Store", "latestPowerTable") {
				if !s.Reachable(fs.Store) {
					continue
				}
				n++
				construct := fmt.Sprintf("%s: with a latest certificate L (L %s first instance) the head table is GetPowerTable(L+1)", name, relName)
				bad := ""
				for _, val := range altsUnder(s, fs.Store.Val) {
					ex, ok := val.(*ssa.Extract)
					var call *ssa.Call
					if ok {
						call, _ = ex.Tuple.(*ssa.Call)
					}
					if call == nil || call.Call.StaticCallee() == nil || funcName(call.Call.StaticCallee()) != "certstore.Store.GetPowerTable" || len(call.Call.Args) < 3 {
						bad = "head table is " + canon(val)
						continue
					}
					for _, a := range altsUnder(s, call.Call.Args[2]) {
						l := linOf(a)
						okLin := l.C == 1 && len(l.T) == 1
						for sym, k := range l.T {
							if k != 1 || !strings.HasSuffix(sym, ".latestCertificate.GPBFTInstance") {
								okLin = false
							}
						}
						if !okLin {
							bad = "head table is that of instance " + canon(a)
						}
					}
				}
				r.Check(bad == "", "C09.R3", construct, p.c.InstrPos(fs.Store), "GetPowerTable(latest.GPBFTInstance + 1)", bad+" — after reopening, the store would serve a stale power table for the next instance and reject the valid successor")
			}
			if n == 0 {
				r.Undecided("C09.R3", name+": head table at open (L "+relName+" first)", "no reachable write of latestPowerTable")
			}
		}
	}

	// R4 Subscribe
	if sub := p.fn("C09.R4", "certstore.Store.Subscribe"); sub != nil {
		n := 0
		allValues(sub, func(v ssa.Value) {
			if mc, ok := v.(*ssa.MakeChan); ok {
				n++
				r.Check(canon(mc.Size) == "1", "C09.R4", "certstore.Store.Subscribe: channel capacity is exactly 1", p.c.InstrPos(mc), "1", "capacity "+canon(mc.Size)+" — drain-then-send relies on capacity 1")
			}
		})
		if n == 0 {
			r.Undecided("C09.R4", "certstore.Store.Subscribe: channel", "no make(chan) found")
		}
		for _, b := range sub.Blocks {
			for _, in := range b.Instrs {
				switch x := in.(type) {
				case *ssa.Send:
					r.Check(heldAt(sub, x, "&$0.mu", true), "C09.R4", "certstore.Store.Subscribe: initial send under the write lock", p.c.InstrPos(x), "held", "not held")
				case *ssa.MapUpdate:
					r.Check(heldAt(sub, x, "&$0.mu", true), "C09.R4", "certstore.Store.Subscribe: subscribers map updated under the write lock", p.c.InstrPos(x), "held", "not held")
				}
			}
		}
	}
	// subscribers map: every access under the exclusive lock
	for _, f := range p.c.ProdFuncs() {
		if !strings.HasPrefix(funcName(f), "certstore.") {
			continue
		}
		for _, b := range f.Blocks {
			for _, in := range b.Instrs {
				fa, ok := in.(*ssa.FieldAddr)
				if !ok || fieldName(fa.X.Type(), fa.Field) != "subscribers" || typeBase(fa.X.Type()) != "Store" {
					continue
				}
				if funcName(f) == "certstore.open" {
					continue // construction, not yet shared
				}
				mu := "&$0.mu"
				if f.Parent() != nil {
					mu = "&$^0.mu"
				}
				r.Check(p.heldAtOrByCallers(f, in, mu, true, 0), "C09.R4", funcName(f)+": subscribers accessed under the write lock", p.c.InstrPos(in), "held", "subscribers map touched without the exclusive lock")
			}
		}
	}

	// R5 reader, R6
	if g := p.fn("C09.R6", "certstore.Store.GetPowerTable"); g != nil {
		rd := callsTo(g, false, "certstore.Store.readPowerTable")
		gr := callsTo(g, false, "certstore.Store.GetRange")
		ap := callsTo(g, false, "certs.ApplyPowerTableDiffs")
		if len(rd) != 1 || len(gr) != 1 || len(ap) != 1 {
			r.Undecided("C09.R6", "certstore.Store.GetPowerTable: shape", fmt.Sprintf("expected one readPowerTable/GetRange/ApplyPowerTableDiffs, found %d/%d/%d", len(rd), len(gr), len(ap)))
		} else {
			start := rd[0].ArgValues()[2]
			// semantic form of max(x − x % frequency, first): on every case of the start value (max builtin, or an
			// if/phi spelling) it is one of the two operands and the case's conditions entail it is the larger one
			okStart := false
			var remV ssa.Value
			allValues(g, func(v ssa.Value) {
				if b, ok := v.(*ssa.BinOp); ok && b.Op == token.REM && canon(b.X) == "$2" && canon(b.Y) == "$0.powerTableFrequency" {
					remV = b
				}
			})
			var firstV ssa.Value
			allValues(g, func(v ssa.Value) {
				if canon(v) == "$0.firstInstance" {
					if _, isAddr := v.(*ssa.FieldAddr); !isAddr {
						firstV = v
					}
				}
			})
			if remV != nil && firstV != nil {
				aLin := linOf(g.Params[2]).add(linOf(remV), -1)
				fLin := linOf(firstV)
				okStart = true
				nCases := 0
				for _, c0 := range casesRaw(start, hypsAt(rd[0].Instr.Block()), 3) {
					for _, c := range expandMinMax(c0, false) {
						nCases++
						l := c.lin(c.V)
						switch {
						case l.equal(aLin):
							if ok, _ := entails(c.Hyps, fLin.add(aLin, -1)); !ok {
								okStart = false
							}
						case l.equal(fLin):
							if ok, _ := entails(c.Hyps, aLin.add(fLin, -1)); !ok {
								okStart = false
							}
						default:
							okStart = false
						}
					}
				}
				if nCases < 2 {
					okStart = false
				}
			}
			r.Check(okStart, "C09.R5", "certstore.Store.GetPowerTable: starts from checkpoint max(x − x % frequency, first)", p.c.InstrPos(rd[0].Instr), canon(start), "checkpoint looked up at "+canon(start)+" — disagrees with the writer's (x % frequency == 0) rule")
			a := gr[0].ArgValues()
			r.Check(a[2] == start && linOf(a[3]).equal(Lin{C: -1, T: map[string]int64{"$2": 1}}), "C09.R6", "certstore.Store.GetPowerTable: deltas of certificates start … instance−1", p.c.InstrPos(gr[0].Instr), canon(a[2])+" … "+canon(a[3]), "range is "+canon(a[2])+" … "+canon(a[3]))
			r.Check(strings.HasPrefix(ap[0].Arg(0), "phi(") || strings.Contains(ap[0].Arg(0), "readPowerTable("), "C09.R6", "certstore.Store.GetPowerTable: deltas applied to the checkpoint table", p.c.InstrPos(ap[0].Instr), ap[0].Arg(0), "applied to "+ap[0].Arg(0))
			r.Check(strings.Contains(ap[0].Arg(0), "certstore.Store.readPowerTable($0, $1, "+canon(start)+")#0"), "C09.R6", "certstore.Store.GetPowerTable: base table is the one read at the checkpoint", p.c.InstrPos(ap[0].Instr), "readPowerTable(start)", "base table "+ap[0].Arg(0))
			// deltas[i] = certificates[i].PowerTableDelta (or append in range order), full range
			fromRange := func(v ssa.Value) bool {
				c := canon(v)
				if !strings.HasSuffix(c, ".PowerTableDelta") && !strings.HasSuffix(c, ".PowerTableDelta]") {
					return false
				}
				if strings.Contains(c, "GetRange(") {
					return true
				}
				// a range-variable copy of an element of the GetRange result
				found := false
				allValues(g, func(x ssa.Value) {
					if a, ok := x.(*ssa.Alloc); ok && strings.Contains(c, strings.TrimPrefix(canon(a), "&")) {
						for _, sv := range storesTo(a) {
							if strings.Contains(canon(sv), "GetRange(") {
								found = true
							}
						}
					}
				})
				return found
			}
			var collect []ssa.Instruction
			ordered := true
			for _, in := range instrsOf(g) {
				switch x := in.(type) {
				case *ssa.Store:
					if ia, isIA := x.Addr.(*ssa.IndexAddr); isIA {
						if a, isA := ia.X.(*ssa.Alloc); isA {
							if _, isArr := a.Type().(*types.Pointer).Elem().Underlying().(*types.Array); isArr {
								continue // temporary array of a variadic call
							}
						}
					}
					if fromRange(x.Val) {
						collect = append(collect, x)
						ia, _ := x.Addr.(*ssa.IndexAddr)
						if ia == nil || !strings.Contains(canon(x.Val), "["+canon(ia.Index)+"]") {
							ordered = false
						}
					}
				case *ssa.Call:
					if b, isB := x.Call.Value.(*ssa.Builtin); isB && b.Name() == "append" && len(x.Call.Args) == 2 && fromRange(x.Call.Args[1]) {
						collect = append(collect, x)
					}
				}
			}
			if len(collect) == 1 {
				p.fullRangeLoop("C09.R6", "certstore.Store.GetPowerTable: every certificate's delta is collected", collect[0], nil)
				r.Check(ordered, "C09.R6", "certstore.Store.GetPowerTable: deltas kept in certificate order", p.c.InstrPos(collect[0]), "deltas[i] = certificates[i].PowerTableDelta / append in range order", "delta order differs from certificate order")
			} else {
				r.Fail("C09.R6", "certstore.Store.GetPowerTable: every certificate's delta is collected", p.c.Pos(g.Pos()), fmt.Sprintf("delta collection loop not found (%d candidates)", len(collect)))
			}
			reads := append(callSinks(g, "read", "certstore.Store.readPowerTable"), okReturns(g)...)
			p.guarded("C09.R6", g, reads, cmpRel("instance ≥ first", `^\$2$`, `^\$0\.firstInstance$`, RelLT), cmpRel("instance ≤ next", `^\$2$`, `^phi\(.*latestCertificate\.GPBFTInstance \+ 1\)`, RelGT))
			p.guardedAfter("C09.R6", g, okReturns(g), errFails("range complete", "certstore.Store.GetRange", ""), errFails("deltas apply", "certs.ApplyPowerTableDiffs", ""))
		}
	}
	// R5: creators write power(first)
	for _, name := range []string{"certstore.CreateStore", "certstore.OpenOrCreateStore"} {
		if fn := p.fn("C09.R5", name); fn != nil {
			type ptCall struct {
				inst, table, where string
			}
			var found []ptCall
			for _, cs := range callsTo(fn, false, "certstore.Store.putPowerTable") {
				found = append(found, ptCall{cs.Arg(2), cs.Arg(3), p.c.InstrPos(cs.Instr)})
			}
			// … or inside a shared unexported helper: its parameters stand for the creator's arguments
			for _, site := range callSites(fn, false) {
				h := site.Common.StaticCallee()
				if h == nil || h.Blocks == nil || !strings.HasPrefix(funcName(h), "certstore.") || funcName(h) == "certstore.open" || funcName(h) == "certstore.Store.putPowerTable" || isInlined(callOf(site.Instr)) != nil {
					continue
				}
				if n := h.Name(); n == "" || (n[0] >= 'A' && n[0] <= 'Z') {
					continue
				}
				bind := func(v ssa.Value) string {
					if pr, ok := v.(*ssa.Parameter); ok {
						for i, q := range h.Params {
							if q == pr && i < len(site.Common.Args) {
								return canon(site.Common.Args[i])
							}
						}
					}
					return canon(v)
				}
				for _, cs := range callsTo(h, false, "certstore.Store.putPowerTable") {
					a := cs.ArgValues()
					found = append(found, ptCall{bind(a[2]), bind(a[3]), p.c.InstrPos(cs.Instr)})
				}
			}
			for _, c := range found {
				r.Check(c.inst == "$2" && (c.table == "$3" || strings.HasSuffix(c.table, ":gpbft.PowerEntries")), "C09.R5", name+": initial table stored at the first instance", c.where, c.inst, "initial table stored at "+c.inst+" / "+c.table)
			}
		}
	}

	// R7 keys
	for _, kf := range []struct{ fn, prefix string }{{"certstore.Store.keyForCert", `"/certs/%016X"`}, {"certstore.Store.keyForPowerTable", `"/power/%016X"`}} {
		if fn := p.fn("C09.R7", kf.fn); fn != nil {
			cs := callsTo(fn, false, "fmt.Sprintf")
			ok := len(cs) == 1 && cs[0].Arg(0) == kf.prefix && cs[0].Arg(1) == "[$1]"
			r.Check(ok, "C09.R7", kf.fn+": fixed-width key "+kf.prefix, p.c.Pos(fn.Pos()), kf.prefix, "key format changed — existing stores and sibling readers/writers would disagree")
		}
	}
	nKeys := 0
	for _, f := range p.c.ProdFuncs() {
		if !strings.HasPrefix(funcName(f), "certstore.") {
			continue
		}
		for _, cs := range callSites(f, false) {
			cn := cs.Callee()
			if !re(`^iface:(Datastore|Batching)\.(Get|Put|Has|Delete)$`).MatchString(cn) {
				continue
			}
			k := cs.Arg(2)
			nKeys++
			ok := strings.Contains(k, "certstore.Store.keyForCert(") || strings.Contains(k, "certstore.Store.keyForPowerTable(") || k == "certstore.tombstoneKey" || k == "$2" || (strings.HasPrefix(k, "github.com/ipfs/go-datastore.NewKey(") && strings.HasSuffix(k, "query.Result.Entry.Key)"))
			r.Check(ok, "C09.R7", fmt.Sprintf("%s: datastore %s uses a shared key constructor", funcName(f), cn[strings.LastIndex(cn, ".")+1:]), p.c.InstrPos(cs.Instr), k, "ad-hoc key "+k)
		}
	}
	// readers use the right constructor for what they read
	for _, rw := range []struct{ fn, want string }{{"certstore.Store.Get", "keyForCert($0, $2)"}, {"certstore.Store.readPowerTable", "keyForPowerTable($0, $2)"}, {"certstore.Store.putPowerTable", "keyForPowerTable($0, $2)"}} {
		if fn := p.fn("C09.R7", rw.fn); fn != nil {
			ok := false
			for _, cs := range callSites(fn, false) {
				if strings.HasPrefix(cs.Callee(), "iface:Datastore.") && strings.HasSuffix(cs.Arg(2), rw.want) {
					ok = true
				}
			}
			r.Check(ok, "C09.R7", rw.fn+": uses "+rw.want, p.c.Pos(fn.Pos()), rw.want, "does not access "+rw.want)
		}
	}
	if gr := p.fn("C09.R7", "certstore.Store.GetRange"); gr != nil {
		gets := callsTo(gr, false, "iface:Datastore.Get")
		if len(gets) == 1 {
			k := gets[0].Arg(2)
			r.Check(re(`keyForCert\(\$0, phi\(\$2\|↻\)\)$`).MatchString(k), "C09.R7", "certstore.Store.GetRange: reads certificates start, start+1, …", p.c.InstrPos(gets[0].Instr), k, "reads "+k)
			p.fullRangeLoop("C09.R7", "certstore.Store.GetRange: ascending scan bounded by end", gets[0].Instr, func(c string) bool { return strings.Contains(c, "errors.Is(") || strings.Contains(c, "!= nil") })
		} else {
			r.Undecided("C09.R7", "certstore.Store.GetRange: read loop", "expected one datastore Get")
		}
		p.guarded("C09.R7", gr, callSinks(gr, "read", "iface:Datastore.Get"), cmpRel("start ≤ end", `^\$2$`, `^\$3$`, RelGT))
		// completeness: the range is reported complete only if end − start + 1 certificates were found
		want := linOf(gr.Params[3]).add(linOf(gr.Params[2]), -1)
		want.C++
		found, bad := 0, ""
		allValues(gr, func(v ssa.Value) {
			b, ok := v.(*ssa.BinOp)
			if !ok || !(b.Op == token.LSS || b.Op == token.GTR || b.Op == token.LEQ || b.Op == token.GEQ || b.Op == token.EQL || b.Op == token.NEQ) {
				return
			}
			for _, pair := range [][2]ssa.Value{{b.X, b.Y}, {b.Y, b.X}} {
				if !strings.HasPrefix(canon(pair[0]), "len(") {
					continue
				}
				o := pair[1]
				if cv, ok := o.(*ssa.Convert); ok {
					o = cv.X
				}
				if call, ok := o.(*ssa.Call); ok {
					if bi, ok := call.Call.Value.(*ssa.Builtin); ok && bi.Name() == "cap" {
						for _, mk := range makeSlicesOf(call.Call.Args[0]) {
							found++
							if got := linOf(mk.Cap); !got.equal(want) {
								bad = "expected count is the capacity " + got.String() + " of " + canon(mk)
							}
						}
						continue
					}
				}
				if l := linOf(o); len(l.T) > 0 && l.equal(want) {
					found++
				}
			}
		})
		if found == 0 {
			// alternative idiom: the scan variable compared with end after the loop
			for _, in := range instrsOf(gr) {
				if b, ok := in.(*ssa.BinOp); ok && !inLoop(b) && (strings.HasPrefix(canon(b.X), "phi($2|") && canon(b.Y) == "$3" || strings.HasPrefix(canon(b.Y), "phi($2|") && canon(b.X) == "$3") {
					found++
				}
			}
		}
		if found == 0 {
			r.Undecided("C09.R7", "certstore.Store.GetRange: complete only with end − start + 1 certificates", "the comparison deciding completeness was not recognised")
		} else {
			r.Check(bad == "", "C09.R7", "certstore.Store.GetRange: complete only with end − start + 1 certificates", p.c.Pos(gr.Pos()), want.String(), bad+" — a range with a missing certificate could be reported complete (or a complete one as missing)")
		}
	}
}

// makeSlicesOf: the MakeSlice instructions a slice value may originate from (through phis, appends and reslices).
func makeSlicesOf(v ssa.Value) []*ssa.MakeSlice {
	seen := map[ssa.Value]bool{}
	var out []*ssa.MakeSlice
	var walk func(x ssa.Value)
	walk = func(x ssa.Value) {
		if x == nil || seen[x] {
			return
		}
		seen[x] = true
		switch y := x.(type) {
		case *ssa.MakeSlice:
			out = append(out, y)
		case *ssa.Phi:
			for _, e := range y.Edges {
				walk(e)
			}
		case *ssa.Slice:
			walk(y.X)
		case *ssa.Call:
			if bi, ok := y.Call.Value.(*ssa.Builtin); ok && bi.Name() == "append" {
				walk(y.Call.Args[0])
			}
		}
	}
	walk(v)
	return out
}

// mustPassTo: along executable edges of s, is `target` reachable from entry without passing any `via` instruction?
func mustPassTo(fn *ssa.Function, s *SCCP, via []ssa.Instruction, target ssa.Instruction) (bool, string) {
	block := map[*VNode]bool{}
	for _, v := range via {
		if n := s.vf.nodeOf[v]; n != nil {
			block[n] = true
		}
	}
	tn := s.vf.nodeOf[target]
	seen := map[*VNode]bool{}
	q := []*VNode{s.entryNode()}
	for len(q) > 0 {
		cur := q[0]
		q = q[1:]
		if cur == nil || seen[cur] || block[cur] {
			continue
		}
		seen[cur] = true
		if cur == tn {
			return false, fmt.Sprintf("n%d reached", cur.Idx)
		}
		for _, su := range cur.Succs {
			if s.edge[[2]int{cur.Idx, su.Idx}] {
				q = append(q, su)
			}
		}
	}
	return true, ""
}
