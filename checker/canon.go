package main

import (
	"fmt"
	"go/constant"
	"go/token"
	"go/types"
	"sort"
	"strings"

	"golang.org/x/tools/go/ssa"
)

// Canon renders an SSA value as a position-free, local-name-free expression:
//   $0.current.Phase            load of a field reached from the receiver
//   gpbft.quorumState.HasStrongQuorumFor($0.quality, gpbft.ECChain.Key($0.proposal))
//   ($1.Vote.Round < $0.current.Round)
// Parameters are numbered ($0 is the receiver of a method). Locals vanish
// because SSA has none; address-taken locals with a single store resolve to the
// stored value. The rendering is used by rule matchers, so rules are keyed on
// resolved entities and data flow, never on text or line numbers.
// paramEnv: temporary parameter → canonical-argument bindings used while rendering
// the body of a small pure helper at one of its (possibly many) call sites.
var paramEnv = map[*ssa.Parameter]string{}

// pureSmall: an in-repo function with a body made only of arithmetic, comparisons,
// builtin calls and returns — no stores, no calls with effects. Such helpers
// (clamp, min/max wrappers, predicates over their arguments) are rendered by value.
func pureSmall(h *ssa.Function) bool {
	if h == nil || h.Blocks == nil || len(h.Blocks) > 8 || h.Pkg == nil || !strings.HasPrefix(h.Pkg.Pkg.Path(), modPath) || h.Recover != nil {
		return false
	}
	if mentioned[funcName(h)] || (h.TypeParams() != nil && h.TypeParams().Len() > 0) {
		return false
	}
	n := 0
	for _, b := range h.Blocks {
		for _, in := range b.Instrs {
			n++
			switch x := in.(type) {
			case *ssa.BinOp, *ssa.UnOp, *ssa.Phi, *ssa.If, *ssa.Jump, *ssa.Return, *ssa.Convert, *ssa.ChangeType, *ssa.DebugRef:
				if u, ok := x.(*ssa.UnOp); ok && u.Op == token.MUL {
					return false // memory read: value may change between sites
				}
			case *ssa.Call:
				if _, ok := x.Call.Value.(*ssa.Builtin); !ok {
					return false
				}
			default:
				return false
			}
		}
	}
	return n <= 40
}

type canoner struct {
	fn    *ssa.Function
	memo  map[ssa.Value]string
	stack map[ssa.Value]bool
}

func newCanoner(fn *ssa.Function) *canoner {
	return &canoner{fn: fn, memo: map[ssa.Value]string{}, stack: map[ssa.Value]bool{}}
}

var canonCache = map[*ssa.Function]*canoner{}

func canon(v ssa.Value) string {
	if v == nil {
		return "<nil>"
	}
	fn := v.Parent()
	if fn == nil {
		return newCanoner(nil).c(v, 0)
	}
	cn := canonCache[fn]
	if cn == nil {
		cn = newCanoner(fn)
		canonCache[fn] = cn
	}
	return cn.c(v, 0)
}

const canonMaxDepth = 14

func calleeName(cc *ssa.CallCommon) string {
	if cc.IsInvoke() {
		return "iface:" + typeBase(cc.Value.Type()) + "." + cc.Method.Name()
	}
	switch f := cc.Value.(type) {
	case *ssa.Function:
		return funcName(f)
	case *ssa.Builtin:
		return f.Name()
	case *ssa.MakeClosure:
		if fn, ok := f.Fn.(*ssa.Function); ok {
			return funcName(fn)
		}
	}
	return "dyn"
}

func constStr(x *ssa.Const) string {
	if x.Value == nil {
		if _, ok := x.Type().Underlying().(*types.Struct); ok {
			return "zero:" + shortType(x.Type())
		}
		if b, ok := x.Type().Underlying().(*types.Basic); ok && b.Kind() != types.UntypedNil {
			return "zero:" + shortType(x.Type())
		}
		if _, ok := x.Type().Underlying().(*types.Array); ok {
			return "zero:" + shortType(x.Type())
		}
		return "nil"
	}
	s := x.Value.ExactString()
	if x.Value.Kind() == constant.String {
		s = x.Value.ExactString()
	}
	if n, ok := x.Type().(*types.Named); ok {
		return s + ":" + n.Obj().Name()
	}
	return s
}

func (cn *canoner) c(v ssa.Value, d int) string {
	if s, ok := cn.memo[v]; ok && len(paramEnv) == 0 {
		return s
	}
	if d > canonMaxDepth {
		return "…"
	}
	if cn.stack[v] {
		return "loop"
	}
	cn.stack[v] = true
	s := cn.c1(v, d)
	delete(cn.stack, v)
	if !strings.Contains(s, "loop") && !strings.Contains(s, "…") && len(paramEnv) == 0 {
		cn.memo[v] = s
	}
	return s
}

func (cn *canoner) path(v ssa.Value, d int) string {
	// v is pointer-typed; return the path such that a load of FieldAddr(v, f) is path+"."+f
	switch x := v.(type) {
	case *ssa.FieldAddr:
		return cn.path(x.X, d+1) + "." + fieldName(x.X.Type(), x.Field)
	case *ssa.IndexAddr:
		return cn.c(x.X, d+1) + "[" + cn.c(x.Index, d+1) + "]"
	case *ssa.Alloc:
		// struct-typed local: path rooted at the alloc (or its single stored value)
		if sv := singleStore(x); sv != nil {
			return cn.c(sv, d+1)
		}
		// a by-value parameter (or value receiver) spilled to the stack: name it after the parameter
		if pv := spilledParam(x); pv != nil {
			return cn.c(pv, d+1)
		}
		return cn.c(x, d+1)
	}
	return cn.c(v, d+1)
}

func fieldName(t types.Type, idx int) string {
	t = t.Underlying()
	if p, ok := t.(*types.Pointer); ok {
		t = p.Elem().Underlying()
	}
	if s, ok := t.(*types.Struct); ok && idx < s.NumFields() {
		return s.Field(idx).Name()
	}
	return fmt.Sprintf("f%d", idx)
}

// singleStore returns the only value ever stored to the alloc, provided the
// alloc's address does not escape to calls (then it is a plain spilled local).
func singleStore(a *ssa.Alloc) ssa.Value {
	var val ssa.Value
	n := 0
	for _, r := range *a.Referrers() {
		switch r := r.(type) {
		case *ssa.Store:
			if r.Addr == a {
				n++
				val = r.Val
			} else {
				return nil // address stored somewhere
			}
		case *ssa.UnOp, *ssa.DebugRef:
		case *ssa.MakeClosure:
			// captured by a closure: fine as long as the closure only reads it
			cl, ok := r.Fn.(*ssa.Function)
			if !ok {
				return nil
			}
			for i, bd := range r.Bindings {
				if bd != a || i >= len(cl.FreeVars) {
					continue
				}
				for _, fr := range *cl.FreeVars[i].Referrers() {
					if st, ok := fr.(*ssa.Store); ok && st.Addr == cl.FreeVars[i] {
						return nil
					}
					if _, ok := fr.(*ssa.MakeClosure); ok {
						return nil
					}
				}
			}
		case *ssa.FieldAddr, *ssa.IndexAddr:
			return nil
		default:
			return nil
		}
	}
	if n == 1 {
		return val
	}
	return nil
}

// copyOf: the alloc is a local struct copy (one whole-value store) whose fields are only read
// through their addresses; returns the copied value. Used by rules that accept "for _, e := range xs" for "xs[i]".
func copyOf(a *ssa.Alloc) ssa.Value {
	var val ssa.Value
	n := 0
	for _, r := range *a.Referrers() {
		switch x := r.(type) {
		case *ssa.Store:
			if x.Addr != a {
				return nil
			}
			n++
			val = x.Val
		case *ssa.UnOp, *ssa.DebugRef:
		case *ssa.FieldAddr, *ssa.IndexAddr:
			if !readOnlyAddr(x.(ssa.Value), 0) {
				return nil
			}
		default:
			return nil
		}
	}
	if n == 1 {
		return val
	}
	return nil
}

// readOnlyAddr: the address (of a field/element of a local copy) is only loaded from,
// possibly through further field/element addresses — never stored to, never passed on.
func readOnlyAddr(v ssa.Value, d int) bool {
	if d > 4 || v.Referrers() == nil {
		return false
	}
	for _, r := range *v.Referrers() {
		switch x := r.(type) {
		case *ssa.UnOp, *ssa.DebugRef:
		case *ssa.FieldAddr:
			if !readOnlyAddr(x, d+1) {
				return false
			}
		case *ssa.IndexAddr:
			if x.X != v || !readOnlyAddr(x, d+1) {
				return false
			}
		default:
			return false
		}
	}
	return true
}

// helperResult: canonical form of result #idx of a spliced helper = its returned
// expression(s), already expressed in the caller's terms.
func helperResult(h *ssa.Function, idx int, d int) string {
	if d > canonMaxDepth {
		return "…"
	}
	set := map[string]bool{}
	for _, b := range h.Blocks {
		if len(b.Instrs) == 0 {
			continue
		}
		if r, ok := b.Instrs[len(b.Instrs)-1].(*ssa.Return); ok && idx < len(r.Results) {
			set[canon(r.Results[idx])] = true
		}
	}
	var parts []string
	for s := range set {
		parts = append(parts, s)
	}
	sort.Strings(parts)
	if len(parts) == 1 {
		return parts[0]
	}
	return "phi(" + strings.Join(parts, "|") + ")"
}

// freeVarBinding: the value the enclosing function bound to this captured variable.
func freeVarBinding(fv *ssa.FreeVar) ssa.Value {
	cl := fv.Parent()
	if cl == nil || cl.Parent() == nil {
		return nil
	}
	idx := -1
	for i, f := range cl.FreeVars {
		if f == fv {
			idx = i
		}
	}
	if idx < 0 {
		return nil
	}
	for _, b := range cl.Parent().Blocks {
		for _, in := range b.Instrs {
			if mc, ok := in.(*ssa.MakeClosure); ok && mc.Fn == cl && idx < len(mc.Bindings) {
				return mc.Bindings[idx]
			}
		}
	}
	return nil
}

// storesTo lists the values stored directly into the alloc.
func storesTo(a *ssa.Alloc) []ssa.Value {
	var out []ssa.Value
	for _, r := range *a.Referrers() {
		if st, ok := r.(*ssa.Store); ok && st.Addr == a {
			out = append(out, st.Val)
		}
	}
	return out
}

// spilledParam: the alloc holds a copy of a parameter (exactly one whole-value
// store, of a Parameter, in the entry block).
func spilledParam(a *ssa.Alloc) ssa.Value {
	var val ssa.Value
	n := 0
	for _, r := range *a.Referrers() {
		if st, ok := r.(*ssa.Store); ok && st.Addr == a {
			n++
			val = st.Val
			if st.Block().Index != 0 {
				return nil
			}
		}
	}
	if n != 1 {
		return nil
	}
	if _, ok := val.(*ssa.Parameter); ok {
		return val
	}
	return nil
}

func (cn *canoner) c1(v ssa.Value, d int) string {
	switch x := v.(type) {
	case *ssa.Parameter:
		for i, p := range x.Parent().Params {
			if p == x {
				if s, ok := paramEnv[x]; ok {
					return s
				}
				// a range-over-func loop body spliced into its function: the parameters are the loop variables
				if isRangeBody(x.Parent()) {
					return fmt.Sprintf("iter(%s)#%d", cn.c(helperSite[x.Parent()].Call.Value, d+1), i)
				}
				// a private helper spliced into its caller: the parameter IS the caller's argument
				if site := helperSite[x.Parent()]; site != nil && i < len(site.Call.Args) {
					return canon(site.Call.Args[i])
				}
				return fmt.Sprintf("$%d", i)
			}
		}
		return "$?"
	case *ssa.FreeVar:
		if b := freeVarBinding(x); b != nil {
			// captured variable: name it after what the enclosing function stored in it;
			// parameters of the enclosing function are written $^i to keep them apart from the closure's own $i
			up := func(v ssa.Value) string {
				if isRangeBody(x.Parent()) {
					return canon(v) // a spliced loop body is part of its function: same names
				}
				return strings.ReplaceAll(canon(v), "$", "$^")
			}
			if a, ok := b.(*ssa.Alloc); ok {
				if sv := singleStore(a); sv != nil {
					return up(sv)
				}
				if pv := spilledParam(a); pv != nil {
					return up(pv)
				}
				if vals := storesTo(a); len(vals) == 1 {
					return up(vals[0])
				}
				return "^" + x.Name()
			}
			return up(b)
		}
		return "^" + x.Name()
	case *ssa.Const:
		return constStr(x)
	case *ssa.Global:
		return shortPkg(x.Pkg.Pkg) + "." + x.Name()
	case *ssa.Function:
		return "func:" + funcName(x)
	case *ssa.Builtin:
		return "builtin:" + x.Name()
	case *ssa.Alloc:
		if sv := singleStore(x); sv != nil {
			return "&" + cn.c(sv, d+1)
		}
		if pv := spilledParam(x); pv != nil {
			return "&" + cn.c(pv, d+1)
		}
		idx := 0
		frame := ""
		if helperSite[x.Parent()] != nil {
			frame = "@" + x.Parent().Name() // locals of a spliced helper are distinct from the caller's
		}
		for _, b := range x.Parent().Blocks {
			for _, in := range b.Instrs {
				if a, ok := in.(*ssa.Alloc); ok {
					if a == x {
						return fmt.Sprintf("alloc%d%s:%s", idx, frame, shortType(x.Type().(*types.Pointer).Elem()))
					}
					idx++
				}
			}
		}
		for i, a := range x.Parent().Locals {
			if a == x {
				return fmt.Sprintf("local%d:%s", i, shortType(x.Type().(*types.Pointer).Elem()))
			}
		}
		return "alloc?"
	case *ssa.UnOp:
		switch x.Op {
		case token.MUL:
			switch a := x.X.(type) {
			case *ssa.FieldAddr, *ssa.IndexAddr:
				return cn.path(a, d)
			case *ssa.Global:
				return cn.c(a, d+1)
			case *ssa.Alloc:
				if sv := singleStore(a); sv != nil {
					return cn.c(sv, d+1)
				}
				if pv := spilledParam(a); pv != nil {
					return cn.c(pv, d+1)
				}
				return "*" + cn.c(a, d+1)
			case *ssa.FreeVar:
				return cn.c(a, d+1)
			}
			return "*" + cn.c(x.X, d+1)
		case token.NOT:
			return "!" + cn.c(x.X, d+1)
		case token.SUB:
			return "-" + cn.c(x.X, d+1)
		case token.ARROW:
			return "<-" + cn.c(x.X, d+1)
		case token.XOR:
			return "^" + cn.c(x.X, d+1)
		}
		return x.Op.String() + cn.c(x.X, d+1)
	case *ssa.FieldAddr:
		return "&" + cn.path(x, d)
	case *ssa.IndexAddr:
		return "&" + cn.path(x, d)
	case *ssa.Field:
		return cn.c(x.X, d+1) + "." + fieldName(x.X.Type(), x.Field)
	case *ssa.Index:
		return cn.c(x.X, d+1) + "[" + cn.c(x.Index, d+1) + "]"
	case *ssa.Lookup:
		return cn.c(x.X, d+1) + "[" + cn.c(x.Index, d+1) + "]"
	case *ssa.Extract:
		if c, ok := x.Tuple.(*ssa.Call); ok {
			if h := isInlined(c); h != nil {
				return helperResult(h, x.Index, d)
			}
		}
		return cn.c(x.Tuple, d+1) + "#" + fmt.Sprint(x.Index)
	case *ssa.Call:
		if h := isInlined(x); h != nil && h.Signature.Results().Len() == 1 {
			return helperResult(h, 0, d)
		}
		if h := x.Call.StaticCallee(); inlineOn && h != nil && h.Signature.Results().Len() == 1 && pureSmall(h) && len(h.Params) == len(x.Call.Args) && d < 8 {
			// render the helper's value with its parameters bound to this site's arguments
			saved := map[*ssa.Parameter]string{}
			for i, pr := range h.Params {
				if old, ok := paramEnv[pr]; ok {
					saved[pr] = old
				}
				paramEnv[pr] = cn.c(x.Call.Args[i], d+1)
			}
			sub := newCanoner(h) // no memo sharing: the rendering depends on the bindings
			set := map[string]bool{}
			for _, b := range h.Blocks {
				if r, ok := b.Instrs[len(b.Instrs)-1].(*ssa.Return); ok {
					set[sub.c(r.Results[0], d+1)] = true
				}
			}
			for _, pr := range h.Params {
				if old, ok := saved[pr]; ok {
					paramEnv[pr] = old
				} else {
					delete(paramEnv, pr)
				}
			}
			var parts []string
			for s := range set {
				parts = append(parts, s)
			}
			sort.Strings(parts)
			if len(parts) == 1 {
				return parts[0]
			}
			return "phi(" + strings.Join(parts, "|") + ")"
		}
		return cn.call(&x.Call, d)
	case *ssa.BinOp:
		if _, xc := x.X.(*ssa.Const); xc && (x.Op == token.ADD || x.Op == token.MUL) && isInteger(x.Type()) {
			if _, yc := x.Y.(*ssa.Const); !yc {
				// commutative with a constant: constant last (1 + x ≡ x + 1)
				return "(" + cn.c(x.Y, d+1) + " " + x.Op.String() + " " + cn.c(x.X, d+1) + ")"
			}
		}
		return "(" + cn.c(x.X, d+1) + " " + x.Op.String() + " " + cn.c(x.Y, d+1) + ")"
	case *ssa.Phi:
		set := map[string]bool{}
		cyc := false
		for _, e := range x.Edges {
			if e == x || dependsOn(e, x, map[ssa.Value]bool{}, 0) {
				cyc = true
				continue
			}
			set[cn.c(e, d+1)] = true
		}
		var parts []string
		for s := range set {
			parts = append(parts, s)
		}
		sort.Strings(parts)
		if cyc {
			parts = append(parts, "↻")
		}
		if len(parts) == 1 {
			return parts[0]
		}
		return "phi(" + strings.Join(parts, "|") + ")"
	case *ssa.ChangeType:
		return cn.c(x.X, d+1)
	case *ssa.ChangeInterface:
		return cn.c(x.X, d+1)
	case *ssa.MakeInterface:
		return cn.c(x.X, d+1)
	case *ssa.Convert:
		return shortType(x.Type()) + "(" + cn.c(x.X, d+1) + ")"
	case *ssa.MultiConvert:
		return shortType(x.Type()) + "(" + cn.c(x.X, d+1) + ")"
	case *ssa.SliceToArrayPointer:
		return cn.c(x.X, d+1)
	case *ssa.Slice:
		if a, ok := x.X.(*ssa.Alloc); ok && x.Low == nil && x.High == nil {
			if els, ok := arrayElems(a); ok {
				var parts []string
				for _, e := range els {
					parts = append(parts, cn.c(e, d+1))
				}
				return "[" + strings.Join(parts, ", ") + "]"
			}
		}
		lo, hi := "", ""
		if x.Low != nil {
			lo = cn.c(x.Low, d+1)
		}
		if x.High != nil {
			hi = cn.c(x.High, d+1)
		}
		return cn.c(x.X, d+1) + "[" + lo + ":" + hi + "]"
	case *ssa.TypeAssert:
		return cn.c(x.X, d+1) + ".(" + shortType(x.AssertedType) + ")"
	case *ssa.MakeClosure:
		if fn, ok := x.Fn.(*ssa.Function); ok {
			return "closure:" + funcName(fn)
		}
		return "closure"
	case *ssa.MakeMap:
		return "make(" + shortType(x.Type()) + ")"
	case *ssa.MakeSlice:
		return "make(" + shortType(x.Type()) + "," + cn.c(x.Len, d+1) + ")"
	case *ssa.MakeChan:
		return "make(" + shortType(x.Type()) + "," + cn.c(x.Size, d+1) + ")"
	case *ssa.Range:
		return "range(" + cn.c(x.X, d+1) + ")"
	case *ssa.Next:
		return "next(" + cn.c(x.Iter, d+1) + ")"
	case *ssa.Select:
		return "select"
	}
	return fmt.Sprintf("?%T", v)
}

// dependsOn: does v transitively (through value operands) depend on target?
func dependsOn(v, target ssa.Value, seen map[ssa.Value]bool, depth int) bool {
	if v == target {
		return true
	}
	if seen[v] || depth > 40 {
		return false
	}
	seen[v] = true
	in, ok := v.(ssa.Instruction)
	if !ok {
		return false
	}
	for _, op := range in.Operands(nil) {
		if op != nil && *op != nil && dependsOn(*op, target, seen, depth+1) {
			return true
		}
	}
	return false
}

// arrayElems recognises the SSA lowering of a variadic argument list: an
// array alloc whose elements are each stored exactly once through constant indices.
func arrayElems(a *ssa.Alloc) ([]ssa.Value, bool) {
	at, ok := a.Type().(*types.Pointer).Elem().Underlying().(*types.Array)
	if !ok || at.Len() > 16 {
		return nil, false
	}
	els := make([]ssa.Value, at.Len())
	for _, r := range *a.Referrers() {
		switch r := r.(type) {
		case *ssa.IndexAddr:
			c, ok := r.Index.(*ssa.Const)
			if !ok {
				return nil, false
			}
			idx := int(c.Int64())
			for _, rr := range *r.Referrers() {
				if st, ok := rr.(*ssa.Store); ok && st.Addr == r {
					if idx >= len(els) || els[idx] != nil {
						return nil, false
					}
					els[idx] = st.Val
				} else {
					return nil, false
				}
			}
		case *ssa.Slice, *ssa.DebugRef:
		default:
			return nil, false
		}
	}
	for _, e := range els {
		if e == nil {
			return nil, false
		}
	}
	return els, true
}

func (cn *canoner) call(cc *ssa.CallCommon, d int) string {
	var args []string
	if cc.IsInvoke() {
		args = append(args, cn.c(cc.Value, d+1))
	} else if _, isFn := cc.Value.(*ssa.Function); !isFn {
		if _, isB := cc.Value.(*ssa.Builtin); !isB {
			if _, isC := cc.Value.(*ssa.MakeClosure); !isC {
				args = append(args, "via:"+cn.c(cc.Value, d+1))
			}
		}
	}
	for _, a := range cc.Args {
		args = append(args, cn.c(a, d+1))
	}
	return calleeName(cc) + "(" + strings.Join(args, ", ") + ")"
}

// ---- instruction helpers ----

// CallSite is any call-like instruction (call, go, defer).
type CallSite struct {
	Instr  ssa.CallInstruction
	Common *ssa.CallCommon
	Fn     *ssa.Function // enclosing
}

func (cs CallSite) Callee() string { return calleeName(cs.Common) }

// Arg returns the canonical form of the i-th argument counting the receiver
// (static method or interface) as argument 0.
func (cs CallSite) Arg(i int) string {
	vs := cs.ArgValues()
	if i < len(vs) {
		return canon(vs[i])
	}
	return ""
}

func (cs CallSite) ArgValues() []ssa.Value {
	var vs []ssa.Value
	if cs.Common.IsInvoke() {
		vs = append(vs, cs.Common.Value)
	}
	vs = append(vs, cs.Common.Args...)
	return vs
}

func (cs CallSite) Value() ssa.Value {
	if v, ok := cs.Instr.(ssa.Value); ok {
		return v
	}
	return nil
}

// callSites lists call-like instructions in fn (optionally including its closures).
func callSites(fn *ssa.Function, deep bool) []CallSite {
	var out []CallSite
	for _, in := range instrsOf(fn) {
		if ci, ok := in.(ssa.CallInstruction); ok {
			out = append(out, CallSite{ci, ci.Common(), in.Parent()})
		}
	}
	if deep {
		for _, a := range fn.AnonFuncs {
			out = append(out, callSites(a, true)...)
		}
	}
	return out
}

// callsTo returns the call sites in fn whose resolved callee name equals one of names.
func callsTo(fn *ssa.Function, deep bool, names ...string) []CallSite {
	mention(names...)
	var out []CallSite
	for _, cs := range callSites(fn, deep) {
		n := cs.Callee()
		for _, want := range names {
			if n == want {
				out = append(out, cs)
			}
		}
	}
	return out
}

// fieldStores lists Store instructions in fn whose address is the named field
// (struct type base name + field name), e.g. ("instance","proposal") or
// nested ("Instant","Phase").
type FieldStore struct {
	Store *ssa.Store
	Path  string // canonical path of the address, e.g. $0.current.Phase
	Fn    *ssa.Function
}

func fieldStores(fn *ssa.Function, deep bool, structName, field string) []FieldStore {
	var out []FieldStore
	for _, in := range instrsOf(fn) {
		st, ok := in.(*ssa.Store)
		if !ok {
			continue
		}
		fa, ok := st.Addr.(*ssa.FieldAddr)
		if !ok {
			continue
		}
		if fieldName(fa.X.Type(), fa.Field) != field {
			continue
		}
		if structName != "" && typeBase(fa.X.Type()) != structName {
			continue
		}
		out = append(out, FieldStore{st, strings.TrimPrefix(canon(fa), "&"), in.Parent()})
	}
	if deep {
		for _, a := range fn.AnonFuncs {
			out = append(out, fieldStores(a, true, structName, field)...)
		}
	}
	return out
}

// mapUpdates lists MapUpdate instructions whose map operand canon has the given suffix.
func mapUpdates(fn *ssa.Function, suffix string) []*ssa.MapUpdate {
	var out []*ssa.MapUpdate
	for _, in := range instrsOf(fn) {
		if mu, ok := in.(*ssa.MapUpdate); ok && strings.HasSuffix(canon(mu.Map), suffix) {
			out = append(out, mu)
		}
	}
	return out
}

func returnsOf(fn *ssa.Function) []*ssa.Return {
	var out []*ssa.Return
	for _, b := range fn.Blocks {
		if len(b.Instrs) == 0 {
			continue
		}
		if r, ok := b.Instrs[len(b.Instrs)-1].(*ssa.Return); ok {
			out = append(out, r)
		}
	}
	return out
}
