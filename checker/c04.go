package main

import (
	"fmt"
	"go/token"
	"sort"
	"strings"

	"golang.org/x/tools/go/ssa"
)

func init() { register("C04", c04) }

// splitAlternatives splits a canonical "phi(a|b|…)" into its top-level alternatives.
func splitAlternatives(c string) []string {
	if !strings.HasPrefix(c, "phi(") || !strings.HasSuffix(c, ")") {
		return []string{c}
	}
	body := c[4 : len(c)-1]
	var out []string
	depth, start := 0, 0
	for i, ch := range body {
		switch ch {
		case '(', '[':
			depth++
		case ')', ']':
			depth--
		case '|':
			if depth == 0 {
				out = append(out, body[start:i])
				start = i + 1
			}
		}
	}
	out = append(out, body[start:])
	sort.Strings(out)
	return out
}

func phiEdgeCanons(v ssa.Value) []string {
	ph, ok := v.(*ssa.Phi)
	if !ok {
		return splitAlternatives(canon(v))
	}
	var out []string
	for _, e := range ph.Edges {
		if e == ph {
			continue
		}
		out = append(out, canon(e))
	}
	sort.Strings(out)
	return uniq(out)
}

// phiSelfReachable: the phi can take its own previous value through phi-only edges
// (i.e. some path through the loop body leaves the loop-carried variable unchanged).
func phiSelfReachable(ph *ssa.Phi) bool {
	seen := map[*ssa.Phi]bool{}
	var walk func(x *ssa.Phi) bool
	walk = func(x *ssa.Phi) bool {
		if seen[x] {
			return false
		}
		seen[x] = true
		for _, e := range x.Edges {
			if e == ph {
				return true
			}
			if q, ok := e.(*ssa.Phi); ok && walk(q) {
				return true
			}
		}
		return false
	}
	return walk(ph)
}

func c04(p *P) {
	r := p.r
	cert := `\$5\[\(phi\(-1\|↻\) \+ 1\)\]`
	r.Explanation = "Static necessary conditions of certificate-chain validation and exact deltas: (R1) in ValidateFinalityCertificates the per-certificate advance (next instance, chain append, table/base update) is unreachable under failure injection of each check — instance equality in both directions, chain validity, non-empty, base linkage, signature, delta application, CID equality; (R1b) the loop-carried state has the right provenance: base := head of THIS certificate's chain, previous table := the table the delta was applied to and the CID checked on, chain := chain ++ this certificate's suffix, and the signature is verified against the previous table; (R2) signature check: index range and zero-scaled-power rejection gate the accumulation, strong quorum of the same table's Scaled() result, aggregate over exactly {instance, round 0, DECIDE, supplemental data, chain}; (R3) every error return reports the loop-carried valid prefix; (R5) delta application: map update/delete unreachable for each class of malformed delta (out of order AND duplicate ids, empty delta, unchanged key, key on zero power, non-positive or keyless new entry, negative result), application works on a fresh map; (R6) MakePowerTableDiff returns a slice sorted by participant and never emits zero deltas; (R7) canonical table order (power desc, id asc)."
	r.NotDecided = "apply(make(a,b)) = b for all tables (an algebraic identity over values), uniqueness of the accepted delta, cryptography."
	r.Assumptions = []string{"AS2: VerifyAggregate is sound", "AS6: go/types, go/ssa and the rule tables are correct"}
	r.Rule("C04.R1", "certificate advance gated by every check; loop-carried state provenance", 22)
	r.Rule("C04.R2", "signature: range/zero-power rejection, strong quorum of the previous table, exact DECIDE payload", 14)
	r.Rule("C04.R3", "error returns report the valid prefix", 6)
	r.Rule("C04.R5", "delta application rejects every malformed class before touching the map; fresh map", 16)
	r.Rule("C04.R6", "MakePowerTableDiff: sorted by participant, no zero deltas", 3)
	r.Rule("C04.R7", "canonical order: power desc, id asc", 3)
	p.include(c08, map[string]string{"C08.R1": "C04.R8", "C08.R2": "C04.R8b", "C08.R4": "C04.R8c"}, map[string]string{"C04.R8": "strong-quorum threshold exact", "C04.R8b": "quorum operands from one table", "C04.R8c": "signer weights: exact scaling of the power table in arbitrary precision"})

	p.gEquality("C04.R1")
	// ---------------- R1 / R3
	if v := p.fn("C04.R1", "certs.ValidateFinalityCertificates"); v != nil {
		var nextPhi, basePhi, prevPhi, chainPhi *ssa.Phi
		allValues(v, func(x ssa.Value) {
			ph, ok := x.(*ssa.Phi)
			if !ok {
				return
			}
			for _, e := range ph.Edges {
				switch {
				case e == v.Params[3]:
					nextPhi = ph
				case e == v.Params[4]:
					basePhi = ph
				case e == v.Params[2]:
					prevPhi = ph
				}
			}
			if strings.Contains(shortType(ph.Type()), "ECChain") && ph.Block().Index == 1 {
				chainPhi = ph
			}
		})
		if nextPhi == nil || basePhi == nil || prevPhi == nil || chainPhi == nil {
			r.Undecided("C04.R1", "ValidateFinalityCertificates: loop-carried state", "could not identify the loop-carried next instance / base / previous table / chain")
		} else {
			var adv []Sink
			for _, e := range nextPhi.Edges {
				if b, ok := e.(*ssa.BinOp); ok && b.Op == token.ADD && b.X == nextPhi {
					adv = append(adv, Sink{b, "next instance advances"})
				}
			}
			adv = append(adv, callSinks(v, "finalized chain extended", "gpbft.ECChain.Append")...)
			if len(adv) < 2 {
				r.Undecided("C04.R1", "ValidateFinalityCertificates: advance", "advance statements not found")
			} else {
				baseChk := union(canonIs("", `^\(phi\(\$4\|.*\) != nil\)$`, avTrue), callResult("", "gpbft.TipSet.Equal", "", -1, avFalse))
				baseChk.Name = "chain starts at the predecessor's head / caller's base"
				p.guarded("C04.R1", v, adv,
					cmpRel("instance not below the expected one", cert+`\.GPBFTInstance$`, `^phi\(\$3\|↻\)$`, RelLT),
					cmpRel("instance not above the expected one", cert+`\.GPBFTInstance$`, `^phi\(\$3\|↻\)$`, RelGT),
					errFails("chain well-formed", "gpbft.ECChain.Validate", ""),
					callResult("chain non-empty", "gpbft.ECChain.IsZero", "", -1, avTrue),
					baseChk,
					errFails("signed by a strong quorum", "certs.verifyFinalityCertificateSignature", ""),
					errFails("delta applies", "certs.ApplyPowerTableDiffs", ""),
					errFails("table CID computable", "certs.MakePowerTableCID", ""),
					cmpRel("delta yields the committed table", cert+`\.SupplementalData\.PowerTable$`, `^certs\.MakePowerTableCID\(certs\.ApplyPowerTableDiffs\(.*#0\)#0$`, RelNE),
				)
			}
			where := p.c.Pos(v.Pos())
			// R1b provenance
			be := phiEdgeCanons(basePhi)
			wantBase := []string{"$4", "gpbft.ECChain.Head(" + strings.ReplaceAll(strings.ReplaceAll(cert, `\`, ""), "", "") + ".ECChain)"}
			sort.Strings(wantBase)
			r.Check(strings.Join(be, " | ") == strings.Join(wantBase, " | "), "C04.R1", "ValidateFinalityCertificates: next base := head of this certificate's chain", where, strings.Join(be, " | "),
				"loop-carried base is "+strings.Join(be, " | ")+" — the next certificate would not be checked against the head finalized by its predecessor")
			r.Check(!phiSelfReachable(basePhi), "C04.R1", "ValidateFinalityCertificates: every accepted certificate replaces the expected base", where, "no path through the loop body keeps the previous base",
				"some path through the loop body leaves the expected base unchanged (a nil base from the caller stays nil, so the next certificate's linkage is not checked)")
			var pe []string
			for _, e := range phiEdgeCanons(prevPhi) {
				// a helper returning (table, err) renders as a nested phi whose error paths yield nil: flatten, drop nil
				for _, a := range splitAlternatives(e) {
					if a != "nil" {
						pe = append(pe, a)
					}
				}
			}
			sort.Strings(pe)
			pe = uniq(pe)
			okPrev := len(pe) == 2 && pe[0] == "$2" && strings.HasPrefix(pe[1], "certs.ApplyPowerTableDiffs(phi($2|↻), [") && strings.HasSuffix(pe[1], ".PowerTableDelta])#0")
			r.Check(okPrev, "C04.R1", "ValidateFinalityCertificates: next table := previous table with this certificate's delta applied", where, strings.Join(pe, " | "), "loop-carried power table is "+strings.Join(pe, " | "))
			for _, cs := range callsTo(v, false, "certs.verifyFinalityCertificateSignature") {
				r.Check(cs.ArgValues()[1] == prevPhi && cs.Arg(0) == "$0" && cs.Arg(2) == "$1", "C04.R1", "ValidateFinalityCertificates: signature checked against the table in force for the instance", p.c.InstrPos(cs.Instr), cs.Arg(1), "signature verified against "+cs.Arg(1))
			}
			for _, cs := range callsTo(v, false, "gpbft.TipSet.Equal") {
				a := []string{cs.Arg(0), cs.Arg(1)}
				ok := (cs.ArgValues()[0] == basePhi && strings.HasPrefix(cs.Arg(1), "gpbft.ECChain.Base(")) || (cs.ArgValues()[1] == basePhi && strings.HasPrefix(cs.Arg(0), "gpbft.ECChain.Base("))
				r.Check(ok, "C04.R1", "ValidateFinalityCertificates: compares the expected base with the chain's base", p.c.InstrPos(cs.Instr), strings.Join(a, " vs "), "compares "+strings.Join(a, " with "))
			}
			for _, cs := range callsTo(v, false, "gpbft.ECChain.Append") {
				r.Check(cs.ArgValues()[0] == chainPhi && strings.HasPrefix(cs.Arg(1), "gpbft.ECChain.Suffix("), "C04.R1", "ValidateFinalityCertificates: chain := chain ++ suffix of this certificate", p.c.InstrPos(cs.Instr), cs.Arg(1), "appends "+cs.Arg(1)+" to "+cs.Arg(0))
			}
			// R3
			n := 0
			for _, ret := range returnsOf(v) {
				e := retValue(ret, 3)
				if canon(e) == "nil" {
					// success: reports the advanced state
					r.Check(retValue(ret, 0) == nextPhi && retValue(ret, 1) == chainPhi, "C04.R3", "ValidateFinalityCertificates: success reports the final next instance and chain", p.c.InstrPos(ret), canon(retValue(ret, 0)), "success returns "+canon(retValue(ret, 0)))
					continue
				}
				n++
				ok := retValue(ret, 0) == nextPhi && retValue(ret, 1) == chainPhi && retValue(ret, 2) == prevPhi
				r.Check(ok, "C04.R3", fmt.Sprintf("ValidateFinalityCertificates: error return #%d reports the valid prefix", n), p.c.InstrPos(ret),
					"(next instance, chain, previous power table) as carried into this iteration",
					"error return yields ("+canon(retValue(ret, 0))+", "+canon(retValue(ret, 1))+", "+canon(retValue(ret, 2))+") — not the state of the last valid certificate")
			}
		}
	}

	// ---------------- R2
	if s := p.fn("C04.R2", "certs.verifyFinalityCertificateSignature"); s != nil {
		p.guarded("C04.R2", s, okReturns(s),
			errFails("table scales", "gpbft.PowerEntries.Scaled", ""),
			errFails("signer set well-formed", "github.com/filecoin-project/go-bitfield.BitField.ForEach", ""),
			callResult("strong quorum", "gpbft.IsStrongQuorum", "", -1, avFalse),
			errFails("aggregate key", "iface:Verifier.Aggregate", ""),
			errFails("aggregate verifies", "iface:Aggregate.VerifyAggregate", ""))
		for _, cs := range callsTo(s, false, "gpbft.PowerEntries.Scaled") {
			r.Check(cs.Arg(0) == "$1", "C04.R2", "signature: scaled powers of the given (previous) table", p.c.InstrPos(cs.Instr), cs.Arg(0), "scales "+cs.Arg(0))
		}
		for _, cs := range callsTo(s, false, "gpbft.PowerEntries.PublicKeys") {
			r.Check(cs.Arg(0) == "$1", "C04.R2", "signature: public keys of the same table", p.c.InstrPos(cs.Instr), cs.Arg(0), "keys of "+cs.Arg(0))
		}
		for _, cs := range callsTo(s, false, "github.com/filecoin-project/go-bitfield.BitField.ForEach") {
			r.Check(cs.Arg(0) == "$3.Signers", "C04.R2", "signature: iterates the certificate's signers", p.c.InstrPos(cs.Instr), cs.Arg(0), "iterates "+cs.Arg(0))
		}
		for _, cs := range callsTo(s, false, "gpbft.IsStrongQuorum") {
			adds := closureAccumulation(cs.ArgValues()[0], s)
			okA := len(adds) == 1 && strings.HasPrefix(adds[0], "gpbft.PowerEntries.Scaled($1)#0[")
			r.Check(okA && cs.Arg(1) == "gpbft.PowerEntries.Scaled($1)#1", "C04.R2", "signature: quorum of signers' scaled power against the same table's scaled total", p.c.InstrPos(cs.Instr), strings.Join(adds, ",")+" / "+cs.Arg(1), "quorum test on "+strings.Join(adds, ",")+" vs "+cs.Arg(1))
		}
		// payload
		var payload map[string]ssa.Value
		allValues(s, func(x ssa.Value) {
			if a, ok := x.(*ssa.Alloc); ok && strings.HasSuffix(shortType(a.Type()), "gpbft.Payload") {
				payload = structStores(a)
			}
		})
		want := map[string]string{"Instance": "$3.GPBFTInstance", "Round": "0", "SupplementalData": "$3.SupplementalData", "Phase": p.phaseStr("DECIDE_PHASE"), "Value": "$3.ECChain"}
		if payload == nil {
			r.Undecided("C04.R2", "signature: payload", "payload literal not found")
		} else {
			for f, w := range want {
				got := "<unset>"
				if payload[f] != nil {
					got = canon(payload[f])
				}
				r.Check(got == w, "C04.R2", "signature: payload."+f+" = "+w, p.c.Pos(s.Pos()), got, "payload."+f+" is "+got+" — the aggregate would be verified over a different message than the DECIDE the quorum signed")
			}
		}
		for _, cs := range callsTo(s, false, "iface:Aggregate.VerifyAggregate") {
			okS := strings.HasPrefix(cs.Arg(2), "gpbft.Payload.MarshalForSigning(") && strings.HasSuffix(cs.Arg(2), ", $2)") && cs.Arg(3) == "$3.Signature"
			r.Check(okS, "C04.R2", "signature: aggregate over MarshalForSigning(network) with the certificate's signature", p.c.InstrPos(cs.Instr), cs.Arg(2), "verifies "+cs.Arg(2)+" / "+cs.Arg(3))
			r.Check(strings.HasPrefix(cs.Arg(0), "iface:Verifier.Aggregate($0, gpbft.PowerEntries.PublicKeys($1))"), "C04.R2", "signature: aggregate key built from the same table's keys", p.c.InstrPos(cs.Instr), cs.Arg(0), "aggregate over "+cs.Arg(0))
		}
		// closure guards
		var cl *ssa.Function
		for _, a := range s.AnonFuncs {
			for _, b := range a.Blocks {
				for _, in := range b.Instrs {
					if st, ok := in.(*ssa.Store); ok {
						if _, isFV := st.Addr.(*ssa.FreeVar); isFV {
							cl = a
						}
					}
				}
			}
		}
		if cl != nil {
			var acc []Sink
			for _, b := range cl.Blocks {
				for _, in := range b.Instrs {
					if st, ok := in.(*ssa.Store); ok {
						if _, isFV := st.Addr.(*ssa.FreeVar); isFV {
							acc = append(acc, Sink{st, "signer counted (" + canon(st.Addr) + ")"})
						}
					}
				}
			}
			if len(acc) < 2 {
				r.Undecided("C04.R2", "signature: signer accumulation", "accumulation stores not found in the ForEach closure")
			} else {
				p.guarded("C04.R2", cl, acc,
					cmpRel("signer index within the table (not equal to len)", `^\$0$`, `len\(\$\^1\)`, RelEQ),
					cmpRel("signer index within the table (not above len)", `^\$0$`, `len\(\$\^1\)`, RelGT),
					cmpRel("signer has non-zero scaled power", `^gpbft\.PowerEntries\.Scaled\(\$\^1\)#0\[\$0\]$`, `^0$`, RelEQ))
			}
		} else {
			r.Undecided("C04.R2", "signature: ForEach closure", "closure not found")
		}
	}

	// ---------------- R5
	if a := p.fn("C04.R5", "certs.ApplyPowerTableDiffsToMap"); a != nil {
		var eff []Sink
		for _, b := range a.Blocks {
			for _, in := range b.Instrs {
				if mu, ok := in.(*ssa.MapUpdate); ok && canon(mu.Map) == "$0" {
					eff = append(eff, Sink{mu, "table entry written"})
				}
			}
		}
		for _, cs := range callsTo(a, false, "delete") {
			if cs.Arg(0) == "$0" {
				eff = append(eff, Sink{cs.Instr, "table entry deleted"})
			}
		}
		if len(eff) != 2 {
			r.Undecided("C04.R5", "ApplyPowerTableDiffsToMap: effects", fmt.Sprintf("expected one map update and one delete, found %d effects", len(eff)))
		} else {
			pid, last := `\.ParticipantID$`, `^phi\(0:ActorID\|.*\)$|^phi\(.*ParticipantID.*\)$`
			notFirst := cmpRel("", `^\(phi\(-1\|↻\) \+ 1\)$`, `^0$`, RelGT)
			found := canonIs("", `^\$0\[.*ParticipantID\]#1$`, avTrue)
			notFound := canonIs("", `^\$0\[.*ParticipantID\]#1$`, avFalse)
			mk := func(name string, vms ...VM) VM { u := union(vms...); u.Name = name; return u }
			p.guarded("C04.R5", a, eff,
				mk("ids strictly increasing (no duplicate id)", notFirst, cmpRel("", pid, last, RelEQ)),
				mk("ids strictly increasing (not descending)", notFirst, cmpRel("", pid, last, RelLT)),
				callResult("delta non-empty", "certs.PowerTableDelta.IsZero", "", -1, avTrue),
				mk("existing entry: key actually changes", found, callResult("", "bytes.Equal", "", -1, avTrue)),
				mk("existing entry: no new key when power drops to zero", found, cmpRel("", `^len\(.*SigningKey\)$`, `^0$`, RelGT), canonIs("", `^math/big\.Int\.Sign\(.*PowerEntry\.Power`, avInt(0))),
				mk("new entry: positive power (not zero)", notFound, canonIs("", `^math/big\.Int\.Sign\(.*PowerDelta`, avInt(0))),
				mk("new entry: positive power (not negative)", notFound, canonIs("", `^math/big\.Int\.Sign\(.*PowerDelta`, avInt(-1))),
				mk("new entry: has a key", notFound, cmpRel("", `^len\(.*SigningKey\)$`, `^0$`, RelEQ)),
				canonIs("resulting power not negative", `^math/big\.Int\.Sign\(.*PowerEntry\.Power`, avInt(-1)),
			)
			// zero power ⇒ delete, positive ⇒ write
			s0 := RunSCCP(a, canonIs("", `^math/big\.Int\.Sign\(.*PowerEntry\.Power`, avInt(0)).Match(a))
			r.Check(!s0.Reachable(eff[0].Instr), "C04.R5", "ApplyPowerTableDiffsToMap: an entry whose power drops to zero is not kept", p.c.InstrPos(eff[0].Instr), "write unreachable when resulting power is 0", "zero-power entries stay in the table")
		}
		// ordering state: lastActorId := d.ParticipantID
		okLast := false
		allValues(a, func(x ssa.Value) {
			if ph, ok := x.(*ssa.Phi); ok && strings.HasSuffix(shortType(ph.Type()), "ActorID") {
				for _, e := range ph.Edges {
					if strings.HasSuffix(canon(e), ".ParticipantID") {
						okLast = true
					}
				}
			}
		})
		r.Check(okLast, "C04.R5", "ApplyPowerTableDiffsToMap: ordering state tracks the previous participant id", p.c.Pos(a.Pos()), "lastActorId := d.ParticipantID", "the previous id is not tracked")
	}
	if ap := p.fn("C04.R5", "certs.ApplyPowerTableDiffs"); ap != nil {
		cs := callsTo(ap, false, "certs.ApplyPowerTableDiffsToMap")
		ok := len(cs) == 1 && cs[0].Arg(0) == "certs.PowerTableArrayToMap($0)"
		r.Check(ok, "C04.R5", "ApplyPowerTableDiffs: works on a fresh map of the caller's table", p.c.Pos(ap.Pos()), "ApplyPowerTableDiffsToMap(PowerTableArrayToMap(prev), …)", "deltas are applied to something other than a fresh copy")
		st := 0
		for _, f := range []*ssa.Function{ap, p.c.Fn("certs.PowerTableArrayToMap")} {
			if f == nil {
				continue
			}
			for _, b := range f.Blocks {
				for _, in := range b.Instrs {
					if s, ok := in.(*ssa.Store); ok && strings.HasPrefix(canon(s.Addr), "&$0[") {
						st++
					}
				}
			}
		}
		r.Check(st == 0, "C04.R5", "ApplyPowerTableDiffs: never writes through the caller's slice", p.c.Pos(ap.Pos()), "no store into the parameter slice", "the caller's power table is modified in place")
		p.guarded("C04.R5", ap, okReturns(ap), errFails("deltas apply", "certs.ApplyPowerTableDiffsToMap", ""))
		for _, ret := range returnsOf(ap) {
			if canon(retValue(ret, 1)) == "nil" {
				r.Check(strings.HasPrefix(canon(retValue(ret, 0)), "certs.PowerTableMapToArray("), "C04.R5", "ApplyPowerTableDiffs: result in canonical order", p.c.InstrPos(ret), canon(retValue(ret, 0)), "returns "+canon(retValue(ret, 0)))
			}
		}
	}
	if m2a := p.fn("C04.R7", "certs.PowerTableMapToArray"); m2a != nil {
		so := callsTo(m2a, false, "sort.Sort")
		r.Check(len(so) == 1, "C04.R7", "PowerTableMapToArray: sorts into canonical order", p.c.Pos(m2a.Pos()), "sort.Sort(pt)", "map → array conversion no longer sorts")
		for _, ret := range returnsOf(m2a) {
			if len(so) == 1 {
				r.Check(dominates(so[0].Instr, ret), "C04.R7", "PowerTableMapToArray: sort precedes the return", p.c.InstrPos(ret), "sorted", "returns before sorting")
			}
		}
	}

	// ---------------- R6
	if m := p.fn("C04.R6", "certs.MakePowerTableDiff"); m != nil {
		so := callsTo(m, false, "slices.SortFunc")
		if len(so) != 1 {
			r.Fail("C04.R6", "MakePowerTableDiff: result sorted by participant", p.c.Pos(m.Pos()), fmt.Sprintf("expected one slices.SortFunc, found %d", len(so)))
		} else {
			for _, ret := range returnsOf(m) {
				ok := dominates(so[0].Instr, ret) && canon(retValue(ret, 0)) == so[0].Arg(0)
				r.Check(ok, "C04.R6", "MakePowerTableDiff: the returned slice is the sorted one", p.c.InstrPos(ret), so[0].Arg(0), "returns "+canon(retValue(ret, 0))+" but sorts "+so[0].Arg(0))
			}
			if cmpf := p.fnWith("C04.R6", "certs.MakePowerTableDiff", "cmp.Compare"); cmpf != nil {
				cs := callsTo(cmpf, false, "cmp.Compare")
				ok := len(cs) == 1 && strings.HasSuffix(cs[0].Arg(0), "$0.ParticipantID") && strings.HasSuffix(cs[0].Arg(1), "$1.ParticipantID")
				r.Check(ok, "C04.R6", "MakePowerTableDiff: comparator = ascending participant id", p.c.Pos(cmpf.Pos()), "cmp.Compare(a.ParticipantID, b.ParticipantID)", "comparator changed")
			}
		}
		// zero deltas skipped
		var apps []Sink
		allValues(m, func(x ssa.Value) {
			if c, ok := x.(*ssa.Call); ok {
				if b, isB := c.Call.Value.(*ssa.Builtin); isB && b.Name() == "append" && strings.Contains(shortType(c.Type()), "PowerTableD") {
					apps = append(apps, Sink{c, "delta emitted"})
				}
			}
		})
		if len(apps) >= 1 {
			nz := union(callResult("", "certs.PowerTableDelta.IsZero", "", -1, avTrue), canonIs("", `^make\(map\[gpbft\.ActorID\]\*gpbft\.PowerEntry.*\)\[.*\]#1$`, avTrue))
			nz.Name = "an unchanged participant yields no delta"
			p.guarded("C04.R6", m, apps[:1], nz)
		} else {
			r.Undecided("C04.R6", "MakePowerTableDiff: emission", "append not found")
		}
	}

	// ---------------- R7
	if l := p.fn("C04.R7", "gpbft.PowerEntries.Less"); l != nil {
		cmpCalls := callsTo(l, false, "github.com/filecoin-project/go-state-types/big.Cmp")
		src := func(v ssa.Value) string {
			// p[i] is copied into a local: resolve the copy
			if u, ok := v.(*ssa.UnOp); ok {
				if fa, ok := u.X.(*ssa.FieldAddr); ok {
					if a, ok := fa.X.(*ssa.Alloc); ok {
						if vals := storesTo(a); len(vals) == 1 {
							return canon(vals[0]) + "." + fieldName(fa.X.Type(), fa.Field)
						}
					}
				}
			}
			return canon(v)
		}
		if len(cmpCalls) != 1 || src(cmpCalls[0].ArgValues()[0]) != "$0[$1].Power" || src(cmpCalls[0].ArgValues()[1]) != "$0[$2].Power" {
			r.Fail("C04.R7", "PowerEntries.Less: compares power of i with power of j", p.c.Pos(l.Pos()), "comparison of p[i].Power with p[j].Power not found")
		} else {
			bad := 0
			for _, c := range []int64{-1, 0, 1} {
				for _, idLess := range []bool{true, false} {
					inj := map[ssa.Value]AV{cmpCalls[0].Value(): avInt(c)}
					for k, vv := range cmpRel("", `^alloc0:gpbft\.PowerEntry\.ID$`, `^alloc1:gpbft\.PowerEntry\.ID$`, map[bool]Rel{true: RelLT, false: RelGT}[idLess]).Match(l) {
						inj[k] = vv
					}
					s := RunSCCP(l, inj)
					gotTrue, gotFalse := false, false
					for _, ret := range returnsOf(l) {
						if !s.Reachable(ret) {
							continue
						}
						av := s.get(ret.Results[0])
						switch {
						case av.K == Cst && av.C.String() == "true":
							gotTrue = true
						case av.K == Cst && av.C.String() == "false":
							gotFalse = true
						default:
							gotTrue, gotFalse = true, true
						}
					}
					want := c > 0 || (c == 0 && idLess)
					r.Rows++
					if !(gotTrue == want && gotFalse == !want) {
						bad++
						r.Fail("C04.R7", fmt.Sprintf("PowerEntries.Less: row cmp(power)=%d id<=%v", c, idLess), p.c.Pos(l.Pos()), fmt.Sprintf("expected %v, code yields true=%v false=%v", want, gotTrue, gotFalse))
					}
				}
			}
			if bad == 0 {
				r.OK("C04.R7", "PowerEntries.Less: decision table = (power desc, id asc)", p.c.Pos(l.Pos()), "6 rows")
			}
		}
	}
	if c := p.fn("C04.R7", "certs.MakePowerTableCID"); c != nil {
		m := callsTo(c, false, "gpbft.PowerEntries.MarshalCBOR")
		ok := len(m) == 1 && (m[0].Arg(0) == "$0" || m[0].Arg(0) == "&$0" || strings.HasSuffix(m[0].Arg(0), "gpbft.PowerEntries"))
		r.Check(ok, "C04.R7", "MakePowerTableCID: CID of the CBOR of the table exactly as given", p.c.Pos(c.Pos()), "pt.MarshalCBOR", "the CID is no longer computed over the table as given")
		p.guarded("C04.R7", c, constReturnsNilErr(c), errFails("serialises", "gpbft.PowerEntries.MarshalCBOR", ""))
	}
}

func constReturnsNilErr(fn *ssa.Function) []Sink { return okReturns(fn) }
