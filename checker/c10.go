package main

import (
	"fmt"
	"regexp"
	"sort"
	"strings"

	"golang.org/x/tools/go/ssa"
)

var dsWriteRe = regexp.MustCompile(`^iface:(Datastore|Batching|Write|Batch|TxnDatastore|Txn)\.(Put|Delete)$`)

// dsWriteSummary: in-repo functions that (transitively, static calls) perform a datastore write.
func (p *P) dsWriters() map[string]bool {
	w := map[string]bool{}
	changed := true
	for changed {
		changed = false
		for _, f := range p.c.ProdFuncs() {
			n := funcName(f)
			if w[n] {
				continue
			}
			for _, cs := range callSites(f, false) {
				cn := cs.Callee()
				if dsWriteRe.MatchString(cn) || w[cn] {
					w[n] = true
					changed = true
					break
				}
			}
		}
	}
	return w
}

// writeSites lists every datastore-writing call in fn: direct Put/Delete on a
// datastore interface, or a call to an in-repo wrapper that writes.
func (p *P) writeSites(fn *ssa.Function, writers map[string]bool) []Sink {
	var out []Sink
	for _, cs := range callSites(fn, false) {
		cn := cs.Callee()
		if dsWriteRe.MatchString(cn) {
			out = append(out, Sink{cs.Instr, "datastore write " + cn + " key=" + cs.Arg(2)})
		} else if writers[cn] {
			out = append(out, Sink{cs.Instr, "datastore-writing call " + cn})
		}
	}
	return out
}

func filterSinks(in []Sink, rx string) []Sink {
	r := re(rx)
	var out []Sink
	for _, s := range in {
		var c string
		if v, ok := s.Instr.(ssa.Value); ok {
			c = canon(v)
		} else if ci, ok := s.Instr.(ssa.CallInstruction); ok {
			c = newCanoner(s.Instr.Parent()).call(ci.Common(), 0)
		}
		if r.MatchString(c) {
			out = append(out, s)
		}
	}
	return out
}

func relabel(in []Sink, l string) []Sink {
	out := make([]Sink, len(in))
	for i, s := range in {
		out[i] = Sink{s.Instr, l}
	}
	return out
}

// dsClass classifies a datastore-typed value inside certstore: the store's own
// (namespaced) ds field, or a raw datastore parameter.
func dsClass(v ssa.Value, fn *ssa.Function) string {
	// value stored to Store.ds in this function?
	for _, fs := range fieldStores(fn, false, "Store", "ds") {
		if fs.Store.Val == v {
			return "Store.ds"
		}
	}
	switch x := v.(type) {
	case *ssa.UnOp:
		if fa, ok := x.X.(*ssa.FieldAddr); ok && fieldName(fa.X.Type(), fa.Field) == "ds" && typeBase(fa.X.Type()) == "Store" {
			return "Store.ds"
		}
	case *ssa.Parameter:
		return "param"
	case *ssa.MakeInterface:
		return dsClass(x.X, fn)
	case *ssa.ChangeInterface:
		return dsClass(x.X, fn)
	}
	return "unknown:" + canon(v)
}

func init() { register("C10", c10) }

func c10(p *P) {
	r := p.r
	r.Explanation = "Static necessary conditions of crash atomicity of certstore operations, decided on every CFG path: write ORDER inside Put/Create/OpenOrCreate/wipe (dominance between classified datastore-write call sites, with in-repo wrappers summarised as writers), error-guarding between consecutive writes (failure-injection SCCP), the wipe's tombstone protocol (written first, skipped by the loop, deleted last, nothing deleted without a tombstone), and the provenance rule that an interrupted wipe is resumed on the same datastore the tombstone was written to."
	r.NotDecided = "atomicity of a single datastore write (assumed, AS1); actual I/O and reopen behaviour on real crash images; equality of observable state before/after (a behavioural comparison)."
	r.Assumptions = []string{"AS1: a single datastore Put/Delete is atomic and durable", "AS6: go/types, go/ssa and the rule tables are correct"}
	r.Rule("C10.R1", "Put: certificate write ≺ optional checkpoint write ≺ latest-pointer write; nothing is written after the pointer; each later write is unreachable when an earlier one fails", 5)
	r.Rule("C10.R2", "CreateStore / OpenOrCreateStore: initial power table written before the first-instance marker, marker unreachable when the table write fails", 4)
	r.Rule("C10.R3", "wipe: tombstone written before any delete; nothing deleted when no tombstone exists; the delete loop skips the tombstone; tombstone deleted last and only if every other delete succeeded", 6)
	r.Rule("C10.R4", "resume: open() continues an interrupted wipe on the same datastore the tombstone is written to, before reading any state", 2)
	r.Rule("C10.R5", "Put: in-memory head (latestCertificate/latestPowerTable) is updated only after the pointer write succeeded", 2)
	r.Rule("C10.R6", "Put: every acyclic write sequence is a prefix of cert [checkpoint] pointer", 1)

	writers := p.dsWriters()
	p.gCreateOnlyMarker("C10.R2")

	// ---- R1 / R5 / R6: Put
	if put := p.fn("C10.R1", "certstore.Store.Put"); put != nil {
		all := p.writeSites(put, writers)
		certW := relabel(filterSinks(all, `^iface:Datastore\.Put\(.*certstore\.Store\.keyForCert\(`), "certificate write")
		ckptW := relabel(filterSinks(all, `^certstore\.Store\.putPowerTable\(`), "power-table checkpoint write")
		ptrW := relabel(filterSinks(all, `^certstore\.Store\.writeInstanceNumber\(.*certstore\.certStoreLatestKey`), "latest-pointer write")
		if len(certW) == 0 || len(ptrW) == 0 {
			r.Undecided("C10.R1", "certstore.Store.Put: write classification", fmt.Sprintf("could not classify writes in Put (cert=%d pointer=%d of %d writes)", len(certW), len(ptrW), len(all)))
		} else {
			p.before("C10.R1", put, "certificate write", certW, "latest-pointer write", ptrW)
			p.notAfter("C10.R1", put, "latest-pointer write", ptrW, "datastore write", all)
			if len(ckptW) > 0 {
				p.before("C10.R1", put, "certificate write", certW, "checkpoint write", ckptW)
				p.notAfter("C10.R1", put, "checkpoint write", ckptW, "certificate write", certW)
				p.guardedAfter("C10.R1", put, ptrW, errFails("checkpoint write ok", "certstore.Store.putPowerTable", ""))
			}
			p.guarded("C10.R1", put, append(append([]Sink{}, ptrW...), ckptW...), errFails("certificate write ok", "iface:Datastore.Put", `keyForCert`))
			// unclassified writes are not allowed in Put
			for _, s := range all {
				known := false
				for _, k := range append(append(append([]Sink{}, certW...), ckptW...), ptrW...) {
					if k.Instr == s.Instr {
						known = true
					}
				}
				if !known {
					r.Fail("C10.R1", "certstore.Store.Put: unclassified "+s.Label, p.c.InstrPos(s.Instr), "Put performs a datastore write that is not the certificate, the checkpoint or the latest pointer")
				}
			}
			// R5
			var mem []Sink
			for _, f := range []string{"latestCertificate", "latestPowerTable"} {
				for _, fs := range fieldStores(put, false, "Store", f) {
					mem = append(mem, Sink{fs.Store, "store to Store." + f})
				}
			}
			if len(mem) < 2 {
				r.Undecided("C10.R5", "certstore.Store.Put: head stores", "in-memory head stores not found")
			} else {
				p.before("C10.R5", put, "latest-pointer write", ptrW, "in-memory head update", mem)
				p.guarded("C10.R5", put, mem, errFails("latest-pointer write ok", "certstore.Store.writeInstanceNumber", `certStoreLatestKey`))
			}
			// R6: enumerate effect sequences on acyclic paths
			class := map[ssa.Instruction]string{}
			for _, s := range certW {
				class[s.Instr] = "cert"
			}
			for _, s := range ckptW {
				class[s.Instr] = "checkpoint"
			}
			for _, s := range ptrW {
				class[s.Instr] = "pointer"
			}
			for _, s := range all {
				if class[s.Instr] == "" {
					class[s.Instr] = "other"
				}
			}
			seqs := effectSequences(put, class)
			okSeq := map[string]bool{"": true, "cert": true, "cert checkpoint": true, "cert pointer": true, "cert checkpoint pointer": true}
			var bad []string
			for s := range seqs {
				if !okSeq[s] {
					bad = append(bad, "«"+s+"»")
				}
			}
			sort.Strings(bad)
			r.Rows += len(seqs)
			r.Check(len(bad) == 0 && seqs["cert pointer"] && len(seqs) >= 3, "C10.R6", "certstore.Store.Put: write sequences", p.c.Pos(put.Pos()),
				fmt.Sprintf("%d distinct write sequences on acyclic paths, all prefixes of cert [checkpoint] pointer", len(seqs)),
				"write sequences not of the form cert [checkpoint] pointer: "+strings.Join(bad, ", "))
		}
	}

	// ---- R2: create paths
	for _, name := range []string{"certstore.CreateStore", "certstore.OpenOrCreateStore"} {
		fn := p.fn("C10.R2", name)
		if fn == nil {
			continue
		}
		// the two creation writes may live in a shared helper (called by both creators): decide the order where they are
		where, label := fn, name
		for depth := 0; depth < 3; depth++ {
			all := p.writeSites(where, writers)
			tw := filterSinks(all, `^certstore\.Store\.putPowerTable\(`)
			mw := filterSinks(all, `^certstore\.Store\.writeInstanceNumber\(.*certstore\.certStoreFirstKey`)
			if len(tw) > 0 || len(mw) > 0 {
				break
			}
			var next *ssa.Function
			for _, s := range all {
				ci, ok := s.Instr.(ssa.CallInstruction)
				if !ok {
					continue
				}
				h := ci.Common().StaticCallee()
				if h == nil || h.Blocks == nil || funcName(h) == "certstore.open" {
					continue
				}
				hall := p.writeSites(h, writers)
				if len(filterSinks(hall, `^certstore\.Store\.putPowerTable\(`)) > 0 && len(filterSinks(hall, `^certstore\.Store\.writeInstanceNumber\(`)) > 0 {
					next = h
				}
			}
			if next == nil {
				break
			}
			where, label = next, name+" (via "+funcName(next)+")"
		}
		all := p.writeSites(where, writers)
		tableW := relabel(filterSinks(all, `^certstore\.Store\.putPowerTable\(`), "initial power-table write")
		markW := relabel(filterSinks(all, `^certstore\.Store\.writeInstanceNumber\(.*(certstore\.certStoreFirstKey|\$[0-9])`), "first-instance marker write")
		if where == fn {
			markW = relabel(filterSinks(all, `^certstore\.Store\.writeInstanceNumber\(.*certstore\.certStoreFirstKey`), "first-instance marker write")
		}
		p.before("C10.R2", where, "initial power-table write", tableW, "first-instance marker write", markW)
		if len(tableW) > 0 && len(markW) > 0 {
			p.guarded("C10.R2", where, markW, errFails("initial power-table write ok", "certstore.Store.putPowerTable", ""))
		}
		_ = label
		for _, s := range p.writeSites(fn, writers) {
			if len(filterSinks([]Sink{s}, `putPowerTable|writeInstanceNumber|certstore\.open\(`)) == 0 {
				if ci, ok := s.Instr.(ssa.CallInstruction); ok && where != fn && ci.Common().StaticCallee() == where {
					continue
				}
				r.Fail("C10.R2", name+": unclassified "+s.Label, p.c.InstrPos(s.Instr), "creation performs a datastore write other than the initial table and the marker")
			}
		}
	}

	// ---- R3: wipe
	if da := p.fn("C10.R3", "certstore.Store.DeleteAll"); da != nil {
		tomb := relabel(filterSinks(p.writeSites(da, writers), `^iface:Datastore\.Put\(.*certstore\.tombstoneKey`), "tombstone write")
		cont := callSinks(da, "continue-delete", "certstore.maybeContinueDelete")
		p.before("C10.R3", da, "tombstone write", tomb, "deletion", cont)
		if len(tomb) > 0 && len(cont) > 0 {
			p.guarded("C10.R3", da, cont, errFails("tombstone write ok", "iface:Datastore.Put", `tombstoneKey`))
		}
	}
	if mcd := p.fn("C10.R3", "certstore.maybeContinueDelete"); mcd != nil {
		var dels, loopDel, tombDel []Sink
		for _, cs := range callSites(mcd, false) {
			if cs.Callee() == "iface:Datastore.Delete" {
				s := Sink{cs.Instr, "delete key=" + cs.Arg(2)}
				dels = append(dels, s)
				if strings.Contains(cs.Arg(2), "tombstoneKey") {
					tombDel = append(tombDel, Sink{cs.Instr, "tombstone delete"})
				} else {
					loopDel = append(loopDel, Sink{cs.Instr, "key delete"})
				}
			}
		}
		if len(loopDel) == 0 || len(tombDel) == 0 {
			r.Undecided("C10.R3", "certstore.maybeContinueDelete: deletes", fmt.Sprintf("could not classify deletes (loop=%d tombstone=%d)", len(loopDel), len(tombDel)))
		} else {
			// nothing deleted when there is no tombstone (or Has fails)
			p.guarded("C10.R3", mcd, dels, callResult("tombstone present", "iface:Datastore.Has", `tombstoneKey`, 0, avFalse), errFails("tombstone lookup ok", "iface:Datastore.Has", `tombstoneKey`))
			// loop skips the tombstone
			// accepted idioms: NewKey(r.Key) == tombstoneKey, r.Key == tombstoneKey.String(), key.Equal(tombstoneKey)
			skip := union(
				cmpRel("key ≠ tombstone", `datastore\.NewKey\(`, `^certstore\.tombstoneKey$`, RelEQ),
				cmpRel("key ≠ tombstone", `\.Key$`, `^github\.com/ipfs/go-datastore\.Key\.String\(certstore\.tombstoneKey\)$`, RelEQ),
				callResult("key ≠ tombstone", "github.com/ipfs/go-datastore.Key.Equal", `tombstoneKey`, -1, avTrue))
			skip.Name = "key ≠ tombstone"
			p.guarded("C10.R3", mcd, loopDel, skip)
			// tombstone deleted last: not in the loop, not followed by loop deletes, unreachable when a loop delete fails
			for _, t := range tombDel {
				r.Check(!inLoop(t.Instr), "C10.R3", "certstore.maybeContinueDelete: tombstone delete outside the loop", p.c.InstrPos(t.Instr), "not on a CFG cycle", "the tombstone is deleted inside the loop")
			}
			for _, l := range loopDel {
				r.Check(inLoop(l.Instr), "C10.R3", "certstore.maybeContinueDelete: key deletes iterate the query", p.c.InstrPos(l.Instr), "on the query loop", "key delete is not inside the loop")
			}
			p.notAfter("C10.R3", mcd, "tombstone delete", tombDel, "key delete", loopDel)
			p.guardedAfter("C10.R3", mcd, tombDel, errFails("every key delete ok", "iface:Datastore.Delete", `datastore\.NewKey\(`))
			p.guarded("C10.R3", mcd, tombDel, errFails("query ok", "iface:Datastore.Query", ""))
		}
	}

	// ---- R4: resume provenance (D1)
	da := p.c.Fn("certstore.Store.DeleteAll")
	op := p.fn("C10.R4", "certstore.open")
	if da != nil && op != nil {
		var tombClass string
		for _, cs := range callSites(da, false) {
			if cs.Callee() == "iface:Datastore.Put" && strings.Contains(cs.Arg(2), "tombstoneKey") {
				tombClass = dsClass(cs.ArgValues()[0], da)
			}
		}
		var classes []string
		var sameClass []Sink
		for _, cs := range callsTo(op, false, "certstore.maybeContinueDelete") {
			cl := dsClass(cs.ArgValues()[1], op)
			classes = append(classes, cl)
			if cl == tombClass {
				sameClass = append(sameClass, Sink{cs.Instr, "resume wipe on " + cl})
			}
		}
		where := p.c.Pos(op.Pos())
		if tombClass == "" || strings.HasPrefix(tombClass, "unknown") {
			r.Undecided("C10.R4", "certstore.open: resume datastore", "could not classify the datastore DeleteAll writes the tombstone to: "+tombClass)
		} else {
			r.Check(len(sameClass) > 0, "C10.R4", "certstore.open: wipe resumed on the datastore DeleteAll wrote the tombstone to", where,
				fmt.Sprintf("tombstone datastore class %s; open() resumes on classes %v", tombClass, classes),
				fmt.Sprintf("DeleteAll writes the tombstone through %s but open() only resumes on %v — an interrupted wipe is never completed", tombClass, classes))
			if len(sameClass) > 0 {
				reads := callSinks(op, "state read", "certstore.Store.readInstanceNumber", "certstore.Store.Get")
				p.before("C10.R4", op, "wipe resume", sameClass, "state read", reads)
				p.guarded("C10.R4", op, reads, errFails("wipe resume ok", "certstore.maybeContinueDelete", ""))
			}
		}
	}
}

// effectSequences enumerates the classified-effect sequences along acyclic paths of the spliced CFG from entry to any exit.
func effectSequences(fn *ssa.Function, class map[ssa.Instruction]string) map[string]bool {
	out := map[string]bool{}
	vf := vfuncOf(fn)
	steps := 0
	var walk func(n *VNode, onPath map[*VNode]bool, seq []string)
	walk = func(n *VNode, onPath map[*VNode]bool, seq []string) {
		steps++
		if steps > 2000000 {
			return
		}
		for _, in := range n.Instrs {
			if c, ok := class[in]; ok {
				seq = append(seq[:len(seq):len(seq)], c)
			}
		}
		if len(n.Succs) == 0 {
			out[strings.Join(seq, " ")] = true
			return
		}
		onPath[n] = true
		for _, s := range n.Succs {
			if !onPath[s] {
				walk(s, onPath, seq)
			}
		}
		delete(onPath, n)
	}
	if vf.Entry != nil {
		walk(vf.Entry, map[*VNode]bool{}, nil)
	}
	return out
}
