package main

import (
	"fmt"
	"go/constant"
	"go/token"
	"go/types"
	"reflect"
	"sort"
	"strings"

	"golang.org/x/tools/go/ssa"
)

func init() { register("C14", c14) }

// bufferWrites lists, in dominance order, what is written into a local bytes.Buffer of fn.
func bufferWrites(fn *ssa.Function) []string {
	type w struct {
		in ssa.Instruction
		s  string
	}
	var ws []w
	for _, cs := range callSites(fn, false) {
		switch cs.Callee() {
		case "bytes.Buffer.WriteString", "bytes.Buffer.Write":
			if strings.HasSuffix(cs.Arg(0), "bytes.Buffer") {
				ws = append(ws, w{cs.Instr, cs.Arg(1)})
			}
		case "encoding/binary.Write":
			if strings.HasSuffix(cs.Arg(0), "bytes.Buffer") {
				dv := cs.ArgValues()[2]
				if mi, ok := dv.(*ssa.MakeInterface); ok {
					dv = mi.X
				}
				ws = append(ws, w{cs.Instr, "be:" + cs.Arg(2) + ":" + shortType(dv.Type())})
			}
		case "github.com/whyrusleeping/cbor-gen.WriteByteArray":
			ws = append(ws, w{cs.Instr, "cborbytes:" + cs.Arg(1)})
		}
	}
	sort.SliceStable(ws, func(i, j int) bool { return dominates(ws[i].in, ws[j].in) })
	var out []string
	for _, x := range ws {
		out = append(out, x.s)
	}
	return out
}

// finalBufferWrites: the ordered items written into the buffer whose Bytes() the function returns
// (after its last Reset, if any).
func finalBufferWrites(fn *ssa.Function) []string {
	var buf string
	for _, ret := range returnsOf(fn) {
		c := canon(retValue(ret, 0))
		if strings.HasPrefix(c, "bytes.Buffer.Bytes(") {
			buf = strings.TrimSuffix(strings.TrimPrefix(c, "bytes.Buffer.Bytes("), ")")
		}
	}
	if buf == "" {
		return nil
	}
	var reset ssa.Instruction
	for _, cs := range callsTo(fn, false, "bytes.Buffer.Reset") {
		if cs.Arg(0) == buf {
			reset = cs.Instr
		}
	}
	type w struct {
		in ssa.Instruction
		s  string
	}
	var ws []w
	for _, cs := range callSites(fn, false) {
		if reset != nil && !dominates(reset, cs.Instr) {
			continue
		}
		switch cs.Callee() {
		case "bytes.Buffer.WriteString", "bytes.Buffer.Write":
			if cs.Arg(0) == buf {
				ws = append(ws, w{cs.Instr, cs.Arg(1)})
			}
		case "encoding/binary.Write":
			if cs.Arg(0) == buf {
				dv := cs.ArgValues()[2]
				if mi, ok := dv.(*ssa.MakeInterface); ok {
					dv = mi.X
				}
				ws = append(ws, w{cs.Instr, "be:" + cs.Arg(2) + ":" + shortType(dv.Type())})
			}
		case "github.com/whyrusleeping/cbor-gen.WriteByteArray":
			if cs.Arg(0) == buf {
				ws = append(ws, w{cs.Instr, "cborbytes:" + cs.Arg(1)})
			}
		}
	}
	sort.SliceStable(ws, func(i, j int) bool { return dominates(ws[i].in, ws[j].in) })
	var out []string
	for _, x := range ws {
		out = append(out, x.s)
	}
	return out
}

func c14(p *P) {
	r := p.r
	p.gCopiesAreDeep("C14.R2", "prefixes")
	p.gSignedBytesFresh("C14.R1")
	r.Explanation = "Static necessary conditions of binding, agreeing and robust encodings: (R1) the exact ordered sequence of items written into the signed bytes of a payload, of a tipset and of the VRF input — every field present, integers fixed-width big-endian, the variable-length network name fenced by separators, distinct domain tags; (R2) the three chain-key computations (direct, batch, cached prefixes) hash TipSet.MarshalForSigning of every tipset in order and prefix i gets batch[i]; (R3) for every generated CBOR codec the fields written, the fields read and the struct declaration agree in order and count with the array header; (R4) in every generated decoder each allocation sized by a decoded header is unreachable unless the size passed an upper-bound comparison, and each cborgen maxlen tag appears as such a bound; (R5) the hand-written ECChain codec resets the receiver (incl. the cached key) before filling it and round-trips through the legacy slice type; (R6) the zstd codec: decoder memory cap and cap-limited DecodeAll with the same 1 MiB constant as the pooled buffer, encode-side size check, and the pooled buffer is returned only after the CBOR decode that reads from it has finished."
	r.NotDecided = "round-trip equality for all values, collision resistance, panic-freedom of third-party decoders, BatchTree ≡ Tree (algorithmic)."
	r.Assumptions = []string{"AS6: go/types, go/ssa and the rule tables are correct", "cbor-gen's header/byte-array helpers behave as documented"}
	r.Rule("C14.R1", "signed bytes: exact write sequence covers every field", 5)
	r.Rule("C14.R2", "chain keys: sibling computations agree", 6)
	r.Rule("C14.R3", "generated codecs: field order/count symmetric with the struct and header", 30)
	r.Rule("C14.R4", "generated decoders: header-sized allocations bounded; maxlen tags enforced", 20)
	r.Rule("C14.R5", "ECChain codec resets the receiver and round-trips via the legacy type", 4)
	r.Rule("C14.R6", "zstd: caps and pooled-buffer lifetime", 6)

	// ---------- R1
	if f := p.fn("C14.R1", "gpbft.Payload.MarshalForSigningWithValueKey"); f != nil {
		got := finalBufferWrites(f)
		tag := fmt.Sprintf("%q", constStringOf(p, "gpbft", "DomainSeparationTag"))
		want := []string{tag, `":"`, "$1", `":"`, "be:$0.Phase:gpbft.Phase", "be:$0.Round:uint64", "be:$0.Instance:uint64", "&$0.SupplementalData.Commitments[:]", "&$2[:]", "github.com/ipfs/go-cid.Cid.Bytes($0.SupplementalData.PowerTable)"}
		r.Check(eqSeq(normSeq(got), want), "C14.R1", "Payload signing bytes: tag ‖ : ‖ network ‖ : ‖ phase ‖ round ‖ instance ‖ commitments ‖ value key ‖ power-table CID", p.c.Pos(f.Pos()), strings.Join(got, " ‖ "),
			"signed bytes are ["+strings.Join(got, " ‖ ")+"] — a field is missing, reordered, or no longer fixed-width/fenced, so two different payloads can share signed bytes")
		for _, ret := range returnsOf(f) {
			r.Check(strings.HasPrefix(canon(retValue(ret, 0)), "bytes.Buffer.Bytes("), "C14.R1", "Payload signing bytes: returns the buffer written", p.c.InstrPos(ret), canon(retValue(ret, 0)), "returns "+canon(retValue(ret, 0)))
		}
	}
	if f := p.fn("C14.R1", "gpbft.TipSet.MarshalForSigning"); f != nil {
		got := finalBufferWrites(f)
		ok := len(got) == 4 && got[0] == "be:$0.Epoch:int64" && got[1] == "&$0.Commitments[:]" &&
			re(`^github\.com/ipfs/go-cid\.Cid\.Bytes\(gpbft\.MakeCid\(bytes\.Buffer\.Bytes\(.*\)\)\)$`).MatchString(got[2]) && got[3] == "github.com/ipfs/go-cid.Cid.Bytes($0.PowerTable)"
		// the CID is over the CBOR byte-array encoding of the tipset key
		wk := callsTo(f, false, "github.com/whyrusleeping/cbor-gen.WriteByteArray")
		mc := callsTo(f, false, "gpbft.MakeCid")
		okKey := len(wk) == 1 && len(mc) == 1 && wk[0].Arg(1) == "$0.Key" && dominates(wk[0].Instr, mc[0].Instr) && strings.Contains(mc[0].Arg(0), strings.TrimPrefix(wk[0].Arg(0), "&"))
		r.Check(ok && okKey, "C14.R1", "TipSet signing bytes: epoch ‖ commitments ‖ CID(CBOR(key)) ‖ power-table CID", p.c.Pos(f.Pos()), strings.Join(got, " ‖ "), "tipset bytes are ["+strings.Join(got, " ‖ ")+"]")
	}
	if f := p.fn("C14.R1", "gpbft.vrfSerializeSigInput"); f != nil {
		got := finalBufferWrites(f)
		tag := fmt.Sprintf("%q", constStringOf(p, "gpbft", "DomainSeparationTagVRF"))
		want := []string{tag, `":"`, "$3", `":"`, "$0", `":"`, "be:$1:uint64", "be:$2:uint64"}
		r.Check(eqSeq(normSeq(got), want), "C14.R1", "VRF input: tag ‖ : ‖ network ‖ : ‖ beacon ‖ : ‖ instance ‖ round", p.c.Pos(f.Pos()), strings.Join(got, " ‖ "), "VRF input is ["+strings.Join(got, " ‖ ")+"]")
	}
	t1, t2 := constStringOf(p, "gpbft", "DomainSeparationTag"), constStringOf(p, "gpbft", "DomainSeparationTagVRF")
	r.Check(t1 != "" && t2 != "" && t1 != t2 && !strings.HasPrefix(t1, t2+":") && !strings.HasPrefix(t2, t1+":"), "C14.R1", "domain separation tags distinct", "", t1+" / "+t2, "domain tags "+t1+" / "+t2+" are not distinct")

	// ---------- R2
	for _, name := range []string{"gpbft.ECChain.KeysForPrefixes", "gpbft.ECChain.AllPrefixes"} {
		f := p.fn("C14.R2", name)
		if f == nil {
			continue
		}
		p.chainKeyInputs("C14.R2", f, "github.com/filecoin-project/go-f3/merkle.BatchTree", "merkle.BatchTree")
	}
	if kf := p.fnWith("C14.R2", "gpbft.ECChain.Key", "merkle.Tree"); kf != nil {
		p.chainKeyInputs("C14.R2", kf, "merkle.Tree", "merkle.Tree")
	}
	if ap := p.c.Fn("gpbft.ECChain.AllPrefixes"); ap != nil {
		// prefix i: TipSets[:i+1], key := batch[i]  (lin(high) − lin(index) = 1)
		okSlice, okKey := false, false
		var high *Lin
		allValues(ap, func(v ssa.Value) {
			if sl, ok := v.(*ssa.Slice); ok && strings.HasSuffix(canon(sl.X), "$0.TipSets") && sl.High != nil {
				h := linOf(sl.High)
				high, okSlice = &h, true
			}
		})
		for _, cs := range callsTo(ap, false, "copy") {
			if !strings.Contains(cs.Arg(0), ".key[:]") || !strings.Contains(cs.Arg(1), "BatchTree(") || high == nil {
				continue
			}
			if sl, ok := cs.ArgValues()[1].(*ssa.Slice); ok {
				if ia, ok := sl.X.(*ssa.IndexAddr); ok {
					d := high.add(linOf(ia.Index), -1)
					okKey = len(d.T) == 0 && d.C == 1
				}
			}
		}
		r.Check(okSlice && okKey, "C14.R2", "AllPrefixes: prefix i = TipSets[:i+1] with cached key batch[i]", p.c.Pos(ap.Pos()), "slice and key use the same index", "prefix objects get the key of a different prefix")
	}
	if kp := p.c.Fn("gpbft.ECChain.KeysForPrefixes"); kp != nil {
		ok := false
		for _, b := range kp.Blocks {
			for _, in := range b.Instrs {
				if st, isSt := in.(*ssa.Store); isSt {
					if ia, isIA := st.Addr.(*ssa.IndexAddr); isIA && strings.Contains(canon(st.Val), "merkle.BatchTree(") && strings.HasSuffix(canon(st.Val), "["+canon(ia.Index)+"]") {
						ok = true
					}
				}
			}
		}
		r.Check(ok, "C14.R2", "KeysForPrefixes: res[i] = batch[i]", p.c.Pos(kp.Pos()), "same index", "keys are shifted relative to prefixes")
	}

	// ---------- R3 / R4 generated codecs
	p.generatedCodecs()

	// ---------- R5
	if u := p.fn("C14.R5", "gpbft.ECChain.UnmarshalCBOR"); u != nil {
		var reset, fill []Sink
		for _, b := range u.Blocks {
			for _, in := range b.Instrs {
				if st, ok := in.(*ssa.Store); ok {
					switch {
					case canon(st.Addr) == "$0" && strings.HasPrefix(canon(st.Val), "zero:") || (canon(st.Addr) == "$0" && isZeroStructValue(st.Val)):
						reset = append(reset, Sink{st, "receiver reset"})
					case canon(st.Addr) == "&$0.TipSets":
						fill = append(fill, Sink{st, "tipsets installed"})
					}
				}
			}
		}
		r.Check(len(reset) == 1 && len(fill) == 1, "C14.R5", "ECChain.UnmarshalCBOR: resets the whole receiver (tipsets and cached key) before installing the decoded tipsets", p.c.Pos(u.Pos()), "*c = ECChain{} ≺ c.TipSets = …",
			"the receiver is not reset before decoding: a chain object that already cached its key keeps the OLD key for the NEW tipsets (signing and lookups use the wrong key)")
		if len(reset) == 1 && len(fill) == 1 {
			p.before("C14.R5", u, "receiver reset", reset, "tipsets installed", fill)
		}
		d := callsTo(u, false, "gpbft.LegacyECChain.UnmarshalCBOR")
		r.Check(len(d) == 1, "C14.R5", "ECChain.UnmarshalCBOR: decodes the legacy slice representation", p.c.Pos(u.Pos()), "LegacyECChain", "legacy representation no longer used")
		if len(fill) == 1 {
			p.guarded("C14.R5", u, fill, errFails("legacy decode ok", "gpbft.LegacyECChain.UnmarshalCBOR", ""))
		}
	}
	if m := p.fn("C14.R5", "gpbft.ECChain.MarshalCBOR"); m != nil {
		e := callsTo(m, false, "gpbft.LegacyECChain.MarshalCBOR")
		r.Check(len(e) == 1, "C14.R5", "ECChain.MarshalCBOR: encodes the legacy slice representation", p.c.Pos(m.Pos()), "LegacyECChain", "legacy representation no longer used")
		for _, b := range m.Blocks {
			for _, in := range b.Instrs {
				if st, ok := in.(*ssa.Store); ok {
					if ia, isIA := st.Addr.(*ssa.IndexAddr); isIA && strings.Contains(canon(st.Val), "$0.TipSets[") {
						r.Check(strings.HasSuffix(canon(st.Val), "["+canon(ia.Index)+"]"), "C14.R5", "ECChain.MarshalCBOR: tipset i encoded at position i", p.c.InstrPos(st), canon(st.Val), "tipset order changed in the encoding")
						p.fullRangeLoop("C14.R5", "ECChain.MarshalCBOR: every tipset encoded", st, nil)
					}
				}
			}
		}
	}

	// ---------- R6 zstd
	maxSz := p.constValue("internal/encoding", "maxDecompressedSize")
	r.Check(maxSz == 1<<20, "C14.R6", "zstd: decode cap constant is 1 MiB", "", fmt.Sprint(maxSz), fmt.Sprintf("maxDecompressedSize = %d", maxSz))
	if nz := p.fn("C14.R6", "internal/encoding.NewZSTD"); nz != nil {
		mm := callsTo(nz, false, "github.com/klauspost/compress/zstd.WithDecoderMaxMemory")
		cl := callsTo(nz, false, "github.com/klauspost/compress/zstd.WithDecodeAllCapLimit")
		ok := len(mm) == 1 && len(cl) == 1 && mm[0].Arg(0) == fmt.Sprint(maxSz) && cl[0].Arg(0) == "true"
		r.Check(ok, "C14.R6", "zstd: decoder limited to the cap (max memory) and to the destination's capacity", p.c.Pos(nz.Pos()), "WithDecoderMaxMemory(1MiB), WithDecodeAllCapLimit(true)", "decoder limits changed or removed — decompression bombs can allocate beyond the documented limit")
		nr := callsTo(nz, false, "github.com/klauspost/compress/zstd.NewReader")
		if len(nr) == 1 {
			opts := nr[0].Arg(1)
			r.Check(strings.Contains(opts, "WithDecoderMaxMemory(") && strings.Contains(opts, "WithDecodeAllCapLimit("), "C14.R6", "zstd: both limits are passed to the reader", p.c.InstrPos(nr[0].Instr), opts, "reader options are "+opts)
		}
	}
	var bp *ssa.Function
	for _, f := range p.c.Funcs {
		if strings.HasPrefix(funcName(f), "internal/encoding.init$") {
			bp = f
		}
	}
	if bp == nil {
		r.Undecided("C14.R6", "zstd: pooled buffer", "pool constructor not found")
	} else {
		ok := false
		allValues(bp, func(v ssa.Value) {
			if m, isM := v.(*ssa.MakeSlice); isM && canon(m.Len) == fmt.Sprint(maxSz) {
				ok = true
			}
			// a constant-size make is lowered to an array alloc + slice
			if a, isA := v.(*ssa.Alloc); isA {
				if at, isArr := a.Type().(*types.Pointer).Elem().Underlying().(*types.Array); isArr && at.Len() == maxSz {
					ok = true
				}
			}
		})
		r.Check(ok, "C14.R6", "zstd: pooled buffer capacity = the same cap", p.c.Pos(bp.Pos()), fmt.Sprint(maxSz), "pooled buffer size differs from the decode cap")
	}
	if d := p.fn("C14.R6", "internal/encoding.ZSTD.Decode"); d != nil {
		get := callsTo(d, false, "sync.Pool.Get")
		da := callsTo(d, false, "github.com/klauspost/compress/zstd.Decoder.DecodeAll")
		dec := callsTo(d, false, "internal/encoding.CBOR.Decode")
		var puts []CallSite
		deferred := false
		for _, cs := range callSites(d, false) {
			if cs.Callee() == "sync.Pool.Put" {
				puts = append(puts, cs)
				if _, isD := cs.Instr.(*ssa.Defer); isD {
					deferred = true
				}
			}
		}
		if len(get) != 1 || len(da) != 1 || len(dec) != 1 || len(puts) != 1 {
			r.Undecided("C14.R6", "ZSTD.Decode: shape", fmt.Sprintf("get=%d decodeAll=%d cborDecode=%d put=%d", len(get), len(da), len(dec), len(puts)))
		} else {
			okLife := deferred || dominates(dec[0].Instr, puts[0].Instr)
			r.Check(okLife, "C14.R6", "ZSTD.Decode: pooled buffer released only after the CBOR decode that reads from it", p.c.InstrPos(puts[0].Instr), "deferred Put (or Put after Decode)", "the pooled buffer is returned to the pool before the CBOR decode finished reading it — a concurrent Decode can overwrite the bytes being decoded")
			r.Check(strings.Contains(da[0].Arg(2), "sync.Pool.Get(") && strings.HasSuffix(da[0].Arg(2), "[:0]"), "C14.R6", "ZSTD.Decode: decompresses into the pooled, cap-limited buffer", p.c.InstrPos(da[0].Instr), da[0].Arg(2), "decompresses into "+da[0].Arg(2))
			r.Check(strings.HasPrefix(dec[0].Arg(1), "github.com/klauspost/compress/zstd.Decoder.DecodeAll("), "C14.R6", "ZSTD.Decode: decodes the decompressed bytes", p.c.InstrPos(dec[0].Instr), dec[0].Arg(1), "decodes "+dec[0].Arg(1))
			p.guarded("C14.R6", d, callSinks(d, "cbor decode", "internal/encoding.CBOR.Decode"), errFails("decompression ok", "github.com/klauspost/compress/zstd.Decoder.DecodeAll", ""))
		}
	}
	if e := p.fn("C14.R6", "internal/encoding.ZSTD.Encode"); e != nil {
		p.guarded("C14.R6", e, callSinks(e, "compress", "github.com/klauspost/compress/zstd.Encoder.EncodeAll"), cmpRel("encoded size within the decode cap", `^len\(internal/encoding\.CBOR\.Encode\(`, "^"+fmt.Sprint(maxSz)+"$", RelGT), errFails("cbor encode ok", "internal/encoding.CBOR.Encode", ""))
	}
}

func isZeroStructValue(v ssa.Value) bool {
	if c, ok := v.(*ssa.Const); ok {
		return c.Value == nil
	}
	if u, ok := v.(*ssa.UnOp); ok {
		if a, ok := u.X.(*ssa.Alloc); ok {
			return isFreshZero(a)
		}
	}
	return false
}

func constStringOf(p *P, pkg, name string) string {
	pk := p.c.Pkg(pkg)
	if pk == nil {
		return ""
	}
	c, ok := pk.Types.Scope().Lookup(name).(*types.Const)
	if !ok || c.Val().Kind() != constant.String {
		return ""
	}
	return constant.StringVal(c.Val())
}

func normSeq(in []string) []string {
	out := make([]string, len(in))
	for i, s := range in {
		s = strings.TrimSuffix(s, ":string")
		out[i] = s
	}
	return out
}

func eqSeq(a, b []string) bool {
	if len(a) != len(b) {
		return false
	}
	for i := range a {
		x := a[i]
		// string constants render as "…":string or "…"
		if x != b[i] && strings.TrimSuffix(x, ":string") != b[i] {
			return false
		}
	}
	return true
}

// chainKeyInputs: values[i] = TipSets[i].MarshalForSigning() for every i, fed to the given merkle function.
func (p *P) chainKeyInputs(rule string, f *ssa.Function, callee, short string) {
	r := p.r
	name := funcName(f)
	ms := callsTo(f, false, "gpbft.TipSet.MarshalForSigning")
	mk := callsTo(f, false, callee)
	if len(mk) == 0 {
		for _, cs := range callSites(f, false) {
			if strings.HasSuffix(cs.Callee(), short) {
				mk = append(mk, cs)
			}
		}
	}
	if len(ms) == 0 && len(mk) == 1 {
		// the leaves may be produced by a shared helper: values := leaves(c); follow it
		if call, ok := deref(mk[0].ArgValues()[0]).(*ssa.Call); ok {
			if h := call.Call.StaticCallee(); h != nil && h.Blocks != nil && h.Pkg != nil && strings.HasPrefix(h.Pkg.Pkg.Path(), modPath) {
				hm := callsTo(h, false, "gpbft.TipSet.MarshalForSigning")
				okArg := len(call.Call.Args) >= 1 && (canon(call.Call.Args[0]) == "$0" || canon(call.Call.Args[0]) == "$^0")
				if len(hm) == 1 && okArg {
					p.fullRangeLoop(rule, name+": every tipset contributes to the key (via "+funcName(h)+")", hm[0].Instr, nil)
					okStore := false
					for _, in := range instrsOf(h) {
						if st, isSt := in.(*ssa.Store); isSt && st.Val == hm[0].Value() {
							if _, isIA := st.Addr.(*ssa.IndexAddr); isIA {
								okStore = true
							}
						}
						if c2, isC := in.(*ssa.Call); isC {
							if b, isB := c2.Call.Value.(*ssa.Builtin); isB && b.Name() == "append" && len(c2.Call.Args) == 2 && strings.Contains(canon(c2.Call.Args[1]), "MarshalForSigning(") {
								okStore = true
							}
						}
					}
					r.Check(okStore, rule, name+": values[i] = tipset i's signing bytes", p.c.InstrPos(hm[0].Instr), hm[0].Arg(0), "leaf values are not the tipsets' signing bytes in order")
					r.OK(rule, name+": merkle function applied to those values", p.c.InstrPos(mk[0].Instr), mk[0].Arg(0))
					return
				}
			}
		}
	}
	if len(mk) == 0 {
		// merkle package path
		for _, cs := range callSites(f, false) {
			if strings.HasSuffix(cs.Callee(), short) {
				mk = append(mk, cs)
			}
		}
	}
	if len(ms) != 1 || len(mk) != 1 {
		r.Fail(rule, name+": hashes every tipset's signing bytes", p.c.Pos(f.Pos()), fmt.Sprintf("expected one MarshalForSigning in a loop and one %s, found %d/%d", short, len(ms), len(mk)))
		return
	}
	p.fullRangeLoop(rule, name+": every tipset contributes to the key", ms[0].Instr, nil)
	okIdx := false
	for _, b := range f.Blocks {
		for _, in := range b.Instrs {
			if st, ok := in.(*ssa.Store); ok && st.Val == ms[0].Value() {
				if ia, isIA := st.Addr.(*ssa.IndexAddr); isIA {
					okIdx = strings.Contains(ms[0].Arg(0), "TipSets)") || strings.Contains(ms[0].Arg(0), "TipSets[") || strings.Contains(ms[0].Arg(0), "next(range(")
					_ = ia
				}
			}
		}
	}
	r.Check(okIdx, rule, name+": values[i] = tipset i's signing bytes", p.c.InstrPos(ms[0].Instr), ms[0].Arg(0), "leaf values are not the tipsets' signing bytes in order")
	r.Check(strings.HasPrefix(mk[0].Arg(0), "make([][]byte,") || strings.Contains(mk[0].Arg(0), "[][]byte"), rule, name+": merkle function applied to those values", p.c.InstrPos(mk[0].Instr), mk[0].Arg(0), "hashes "+mk[0].Arg(0))
}

// ---- generated codecs ----

func (p *P) generatedCodecs() {
	r := p.r
	type codec struct{ m, u *ssa.Function }
	codecs := map[string]*codec{}
	for _, f := range p.c.ProdFuncs() {
		if !strings.HasSuffix(p.c.Fset.Position(f.Pos()).Filename, "cbor_gen.go") {
			continue
		}
		recv := f.Signature.Recv()
		if recv == nil {
			continue
		}
		key := shortPkg(f.Pkg.Pkg) + "." + typeBase(recv.Type())
		if codecs[key] == nil {
			codecs[key] = &codec{}
		}
		switch f.Name() {
		case "MarshalCBOR":
			codecs[key].m = f
		case "UnmarshalCBOR":
			codecs[key].u = f
		}
	}
	var keys []string
	for k := range codecs {
		keys = append(keys, k)
	}
	sort.Strings(keys)
	if len(keys) < 14 {
		r.Undecided("C14.R3", "generated codecs", fmt.Sprintf("only %d generated codec types found (≥14 confirmed)", len(keys)))
	}
	for _, k := range keys {
		c := codecs[k]
		if c.m == nil || c.u == nil {
			r.Fail("C14.R3", k+": both MarshalCBOR and UnmarshalCBOR generated", "", "one direction is missing")
			continue
		}
		recvT := c.m.Signature.Recv().Type()
		var st *types.Struct
		t := recvT
		if pt, ok := t.(*types.Pointer); ok {
			t = pt.Elem()
		}
		st, _ = t.Underlying().(*types.Struct)
		if st == nil {
			// slice types (PowerEntries, LegacyECChain, PowerTableDiff): element bound only
			p.boundedDecoder(k, c.u, nil)
			continue
		}
		var fields []string
		for i := 0; i < st.NumFields(); i++ {
			fields = append(fields, st.Field(i).Name())
		}
		mo := fieldOrder(c.m, st)
		uo := fieldOrder(c.u, st)
		r.Check(strings.Join(mo, ",") == strings.Join(fields, ","), "C14.R3", k+": fields written in declaration order, all of them", p.c.Pos(c.m.Pos()), strings.Join(mo, ","), "MarshalCBOR writes ["+strings.Join(mo, ",")+"], struct declares ["+strings.Join(fields, ",")+"]")
		r.Check(strings.Join(uo, ",") == strings.Join(fields, ","), "C14.R3", k+": fields read in declaration order, all of them", p.c.Pos(c.u.Pos()), strings.Join(uo, ","), "UnmarshalCBOR reads ["+strings.Join(uo, ",")+"], struct declares ["+strings.Join(fields, ",")+"]")
		// header: unmarshal compares extra with the field count
		n := int64(len(fields))
		okHdr := false
		allValues(c.u, func(v ssa.Value) {
			if b, ok := v.(*ssa.BinOp); ok && b.Op == token.NEQ {
				if cst, isC := b.Y.(*ssa.Const); isC && cst.Value != nil && cst.Value.Kind() == constant.Int && cst.Int64() == n && strings.Contains(canon(b.X), "ReadHeader(") {
					okHdr = true
				}
			}
		})
		r.Check(okHdr, "C14.R3", k+": decoder requires exactly the declared number of fields", p.c.Pos(c.u.Pos()), fmt.Sprintf("extra != %d", n), "array-length check against the field count not found")
		p.boundedDecoder(k, c.u, st)
	}
}

// fieldOrder: order of first access to each field of the receiver in fn.
func fieldOrder(fn *ssa.Function, st *types.Struct) []string {
	var order []string
	seen := map[string]bool{}
	// walk blocks in dominator pre-order so that source order is respected
	var visit func(b *ssa.BasicBlock)
	visit = func(b *ssa.BasicBlock) {
		for _, in := range b.Instrs {
			fa, ok := in.(*ssa.FieldAddr)
			if !ok || fa.X != fn.Params[0] {
				continue
			}
			n := fieldName(fa.X.Type(), fa.Field)
			if !seen[n] {
				seen[n] = true
				order = append(order, n)
			}
		}
		ds := append([]*ssa.BasicBlock{}, b.Dominees()...)
		sort.Slice(ds, func(i, j int) bool { return ds[i].Index < ds[j].Index })
		for _, d := range ds {
			visit(d)
		}
	}
	if len(fn.Blocks) > 0 {
		visit(fn.Blocks[0])
	}
	return order
}

// boundedDecoder: every allocation whose size comes from a decoded header is
// unreachable when that header exceeds its bound; maxlen tags appear as bounds.
func (p *P) boundedDecoder(k string, u *ssa.Function, st *types.Struct) {
	r := p.r
	inj := map[ssa.Value]AV{}
	var bounds []int64
	allValues(u, func(v ssa.Value) {
		b, ok := v.(*ssa.BinOp)
		if !ok || b.Op != token.GTR {
			return
		}
		c, isC := b.Y.(*ssa.Const)
		if !isC || c.Value == nil || c.Value.Kind() != constant.Int {
			return
		}
		if strings.Contains(canon(b.X), "ReadHeader(") {
			inj[b] = avTrue
			bounds = append(bounds, c.Int64())
		}
	})
	s := RunSCCP(u, inj)
	nAlloc := 0
	allValues(u, func(v ssa.Value) {
		m, ok := v.(*ssa.MakeSlice)
		if !ok {
			return
		}
		if _, isC := m.Len.(*ssa.Const); isC {
			return
		}
		if !strings.Contains(canon(m.Len), "ReadHeader(") {
			return
		}
		nAlloc++
		r.Check(!s.Reachable(m), "C14.R4", fmt.Sprintf("%s: header-sized allocation #%d is bounded", k, nAlloc), p.c.InstrPos(m), "unreachable when the header exceeds its limit", "allocation of "+canon(m.Len)+" elements/bytes is not preceded by an upper-bound check on the decoded length")
	})
	if st == nil {
		if nAlloc == 0 {
			r.Fail("C14.R4", k+": slice decoder allocates under a bound", p.c.Pos(u.Pos()), "no bounded allocation found")
		}
		return
	}
	for i := 0; i < st.NumFields(); i++ {
		tag := reflect.StructTag(st.Tag(i)).Get("cborgen")
		if !strings.HasPrefix(tag, "maxlen=") {
			continue
		}
		var want int64
		fmt.Sscanf(strings.TrimPrefix(tag, "maxlen="), "%d", &want)
		found := false
		for _, b := range bounds {
			if b == want {
				found = true
			}
		}
		// fixed-size arrays compare with != instead
		if !found {
			allValues(u, func(v ssa.Value) {
				if b, ok := v.(*ssa.BinOp); ok && (b.Op == token.NEQ || b.Op == token.GTR) {
					if c, isC := b.Y.(*ssa.Const); isC && c.Value != nil && c.Value.Kind() == constant.Int && c.Int64() == want {
						found = true
					}
				}
			})
		}
		r.Check(found, "C14.R4", fmt.Sprintf("%s.%s: documented limit %d enforced by the decoder", k, st.Field(i).Name(), want), p.c.Pos(u.Pos()), fmt.Sprint(want), fmt.Sprintf("maxlen=%d declared on the field but the decoder has no such bound", want))
	}
}
