package main

import (
	"fmt"
	"go/token"
	"sort"
	"strings"

	"golang.org/x/tools/go/ssa"
)

func init() { register("C15", c15) }

// tipsetSource: for a *gpbft.TipSet value, the canonical EC tipset expression X it was built from
// (Key: X.Key(), Epoch: X.Epoch(), PowerTable: CID for that key); "" when the construction is not of that shape.
// Follows a call to an in-repo constructor helper, substituting its parameters by the call's arguments.
func tipsetSource(v ssa.Value, slot string, fn *ssa.Function) (src string, ok bool, why string) {
	v = deref(v)
	var subst map[string]string
	if ex, isEx := v.(*ssa.Extract); isEx {
		if call, isCall := ex.Tuple.(*ssa.Call); isCall {
			h := call.Call.StaticCallee()
			if h == nil || h.Blocks == nil {
				return "", false, "value comes from " + canon(v)
			}
			subst = map[string]string{}
			for i := range h.Params {
				if i < len(call.Call.Args) {
					subst[fmt.Sprintf("$%d", i)] = canon(call.Call.Args[i])
				}
			}
			var allocs []ssa.Value
			for _, r := range returnsOf(h) {
				if canon(r.Results[len(r.Results)-1]) == "nil" && ex.Index < len(r.Results) {
					allocs = append(allocs, r.Results[ex.Index])
				}
			}
			if len(allocs) != 1 {
				return "", false, "constructor helper has no unique successful result"
			}
			v = allocs[0]
		}
	}
	a, isA := v.(*ssa.Alloc)
	if !isA || !strings.HasSuffix(shortType(a.Type()), "gpbft.TipSet") {
		return "", false, "not a TipSet construction: " + canon(v)
	}
	st := structStores(a)
	if st["PowerTable"] == nil && slot != "" && fn != nil {
		// the power table may be filled in through the slot the tipset was stored into: slot.PowerTable = …
		for _, fs := range fieldStores(fn, false, "TipSet", "PowerTable") {
			if fs.Path == slot+".PowerTable" {
				st["PowerTable"] = fs.Store.Val
			}
		}
	}
	if st["Key"] == nil || st["Epoch"] == nil || st["PowerTable"] == nil {
		return "", false, "TipSet literal does not set Epoch, Key and PowerTable"
	}
	k, e, pt := canon(st["Key"]), canon(st["Epoch"]), canon(st["PowerTable"])
	if !strings.HasPrefix(k, "iface:TipSet.Key(") || !strings.HasPrefix(e, "iface:TipSet.Epoch(") {
		return "", false, "Epoch/Key are " + e + " / " + k
	}
	x := strings.TrimSuffix(strings.TrimPrefix(k, "iface:TipSet.Key("), ")")
	if e != "iface:TipSet.Epoch("+x+")" {
		return "", false, "Epoch and Key come from different tipsets: " + e + " / " + k
	}
	self := strings.TrimPrefix(canon(a), "&")
	okPT := false
	for _, keyExpr := range []string{k, self + ".Key", "&" + self + ".Key", slot + ".Key"} {
		if strings.HasPrefix(pt, "f3.gpbftInputs.getPowerTableCIDForTipset(") && strings.HasSuffix(pt, ", "+keyExpr+")#0") {
			okPT = true
		}
	}
	if !okPT {
		return "", false, "PowerTable is " + pt + ", not the CID for this tipset's key " + k
	}
	for from, to := range subst {
		x = strings.ReplaceAll(x, from, to)
	}
	return x, true, ""
}

func c15(p *P) {
	r := p.r
	r.Explanation = "Static necessary conditions of well-formed proposals and history-determined committees: (R1) the proposal's base is the head finalized by certificate instance−1 (bootstrap tipset at BootstrapEpoch−Finality for the first instance), as linear forms and provenance; (R2) the suffix walk only ever collects the EC head and parents of collected tipsets, ends only when the walked tipset's KEY equals the base's key, and both divergence exits return an empty suffix; (R3) length ≤ min(ChainMaxLen, ChainProposedLength) and the look-back / freshness trims only shorten; (R4) each tipset carries the CID of EC's power table at that tipset (same key feeds lookup, cache and result) and the supplemental data commits to GetCommittee(instance+1); (R5) committee rule as linear forms: bootstrap iff instance < Initial+Lookback, otherwise certificate instance−Lookback, its head's key and that tipset's beacon; (R6) GetCommittee and its in-package callees use only GetTipsetByEpoch/GetTipset/GetPowerTable on the EC backend — never the head, parents or the clock; (R7) the participant truncates and validates the host's chain."
	r.NotDecided = "agreement with an independent EC-tree model on all block trees; what an EC backend implementation does internally."
	r.Assumptions = []string{"AS6: go/types, go/ssa and the rule tables are correct"}
	r.Rule("C15.R1", "base = head finalized by the previous instance (or bootstrap tipset)", 5)
	r.Rule("C15.R2", "suffix walk: only head and parents; ends on key equality; divergence ⇒ empty suffix", 7)
	r.Rule("C15.R3", "length bounds and shortening trims", 3)
	r.Rule("C15.R4", "per-tipset power-table CID; supplemental data commits to the next committee", 4)
	r.Rule("C15.R5", "committee look-back rule", 5)
	r.Rule("C15.R6", "committee is a function of finalized history only", 2)
	r.Rule("C15.R7", "participant truncates and validates the host chain", 8)
	p.include(c09, map[string]string{"C09.R6": "C15.R8", "C09.R3": "C15.R8b"}, map[string]string{"C15.R8": "power table of an instance derived from stored certificates only (checkpoint + deltas)", "C15.R8b": "the store's cached head table changes only with a stored certificate"})
	p.gPowerStoreBase("C15.R9")
	p.gCommitteeAggregateKeys("C15.R5")
	r.Rule("C15.R9", "power store anchors the certificate-derived table at the head finalized by the look-back certificate", 2)

	gp := p.fn("C15.R1", "f3.gpbftInputs.GetProposal")
	if gp != nil {
		// ---- R1
		gets := callsTo(gp, false, "certstore.Store.Get")
		if len(gets) != 1 {
			r.Undecided("C15.R1", "GetProposal: previous certificate", fmt.Sprintf("expected one certstore Get, found %d", len(gets)))
		} else {
			l := renameLin(linOf(gets[0].ArgValues()[2]), manifestSyms)
			r.Check(l.equal(Lin{C: -1, T: map[string]int64{"instance": 1}}), "C15.R1", "GetProposal: base from the certificate of instance − 1", p.c.InstrPos(gets[0].Instr), l.String(), "base taken from certificate "+l.String())
			// used only when instance != Initial
			p.guarded("C15.R1", gp, []Sink{{gets[0].Instr, "previous certificate loaded"}}, cmpRel("not the first instance", `^\$2$`, `InitialInstance$`, RelEQ))
		}
		bys := callsTo(gp, false, "iface:Backend.GetTipsetByEpoch")
		if len(bys) == 1 {
			l := renameLin(linOf(bys[0].ArgValues()[2]), manifestSyms)
			r.Check(l.equal(Lin{T: map[string]int64{"BootstrapEpoch": 1, "Finality": -1}}), "C15.R1", "GetProposal: bootstrap base at BootstrapEpoch − Finality", p.c.InstrPos(bys[0].Instr), l.String(), "bootstrap base at "+l.String())
			p.guarded("C15.R1", gp, []Sink{{bys[0].Instr, "bootstrap tipset loaded"}}, cmpRel("first instance", `^\$2$`, `InitialInstance$`, RelNE))
		} else {
			r.Undecided("C15.R1", "GetProposal: bootstrap base", "GetTipsetByEpoch call not found")
		}
		gts := callsTo(gp, false, "iface:Backend.GetTipset")
		if len(gts) == 1 {
			var k []string
			for _, alt := range phiEdgeCanons(gts[0].ArgValues()[2]) {
				if alt != "nil" { // error paths of a key helper: the caller returns before using the key
					k = append(k, alt)
				}
			}
			sort.Strings(k)
			ok := len(k) == 2 && strings.HasPrefix(k[0], "gpbft.ECChain.Head(certstore.Store.Get(") && strings.HasSuffix(k[0], ".Key") && strings.HasPrefix(k[1], "iface:TipSet.Key(iface:Backend.GetTipsetByEpoch(")
			r.Check(ok, "C15.R1", "GetProposal: base tipset = head of the previous certificate's chain | bootstrap tipset", p.c.InstrPos(gts[0].Instr), strings.Join(k, " | "), "base key from "+strings.Join(k, " | "))
		}
		for _, cs := range callsTo(gp, false, "f3.gpbftInputs.collectChain") {
			ok := strings.HasPrefix(cs.Arg(2), "iface:Backend.GetTipset(") && strings.HasPrefix(cs.Arg(3), "iface:Backend.GetHead(")
			r.Check(ok, "C15.R1", "GetProposal: walks from the EC head down to that base", p.c.InstrPos(cs.Instr), cs.Arg(2)+" ← "+cs.Arg(3), "walk between "+cs.Arg(2)+" and "+cs.Arg(3))
		}
		for _, cs := range callsTo(gp, false, "gpbft.NewChain") {
			src, ok, why := tipsetSource(cs.ArgValues()[0], "", gp)
			r.Check(ok && strings.HasPrefix(src, "iface:Backend.GetTipset("), "C15.R1", "GetProposal: chain starts at the base tipset (epoch, key and power-table CID of baseTs)", p.c.InstrPos(cs.Instr), src, "the chain's first tipset is not built from the base tipset: "+src+" "+why)
		}
		// ---- R3
		var mk *ssa.MakeSlice
		allValues(gp, func(v ssa.Value) {
			if m, ok := v.(*ssa.MakeSlice); ok && strings.Contains(shortType(m.Type()), "gpbft.TipSet") {
				mk = m
			}
		})
		if mk == nil {
			r.Undecided("C15.R3", "GetProposal: suffix allocation", "make([]*TipSet, n) not found")
		} else {
			maxLen := p.constValue("gpbft", "ChainMaxLen")
			want := fmt.Sprintf("min((min(%d, $0.manifest.Gpbft.ChainProposedLength) - 1), len(", maxLen)
			r.Check(strings.HasPrefix(canon(mk.Len), want), "C15.R3", "GetProposal: suffix length = min(min(ChainMaxLen, ChainProposedLength) − 1, available)", p.c.InstrPos(mk), canon(mk.Len), "suffix length is "+canon(mk.Len))
		}
		nSl := 0
		allValues(gp, func(v ssa.Value) {
			sl, ok := v.(*ssa.Slice)
			if !ok || !strings.Contains(shortType(sl.Type()), "ec.TipSet") || sl.High == nil {
				return
			}
			nSl++
			h := canon(sl.High)
			ok2 := sl.Low == nil && (strings.HasPrefix(h, "max(0, (len(") || (strings.HasPrefix(h, "(len(") && strings.HasSuffix(h, " - 1)")))
			r.Check(ok2, "C15.R3", fmt.Sprintf("GetProposal: trim #%d only shortens from the head end", nSl), p.c.InstrPos(sl), "[:"+h+"]", "trim is [:"+h+"]")
		})
		if nSl < 2 {
			r.Undecided("C15.R3", "GetProposal: trims", fmt.Sprintf("%d trims found (2 confirmed)", nSl))
		}
		// ---- R4: every element stored into the suffix is built from the collected tipset of the same index
		n := 0
		for _, in := range instrsOf(gp) {
			st, ok := in.(*ssa.Store)
			if !ok {
				continue
			}
			ia, isIA := st.Addr.(*ssa.IndexAddr)
			if !isIA || !strings.Contains(shortType(ia.X.Type()), "gpbft.TipSet") {
				continue
			}
			n++
			i := canon(ia.Index)
			src, okS, why := tipsetSource(st.Val, canon(ia.X)+"["+i+"]", gp)
			r.Check(okS && strings.HasSuffix(src, "["+i+"]") && strings.Contains(src, "collectChain("), "C15.R4", fmt.Sprintf("GetProposal: suffix[i] = (epoch, key, power-table CID for that key) of collected tipset i (#%d)", n), p.c.InstrPos(st), src, "suffix element built from "+src+" "+why)
		}
		if n < 1 {
			r.Undecided("C15.R4", "GetProposal: suffix construction", "no store into the suffix slice found")
		}
		for _, cs := range callsTo(gp, false, "f3.gpbftInputs.GetCommittee") {
			l := renameLin(linOf(cs.ArgValues()[2]), manifestSyms)
			r.Check(l.equal(Lin{C: 1, T: map[string]int64{"instance": 1}}), "C15.R4", "GetProposal: supplemental data from the committee of instance + 1", p.c.InstrPos(cs.Instr), l.String(), "committee of "+l.String())
		}
		for _, fs := range fieldStores(gp, false, "SupplementalData", "PowerTable") {
			v := canon(fs.Store.Val)
			r.Check(strings.HasPrefix(v, "certs.MakePowerTableCID(f3.gpbftInputs.GetCommittee(") && strings.HasSuffix(v, ".PowerTable.Entries)#0"), "C15.R4", "GetProposal: supplemental data = CID of the next committee's entries", p.c.InstrPos(fs.Store), v, "supplemental power table is "+v)
		}
	}
	if pc := p.fn("C15.R4", "f3.gpbftInputs.getPowerTableCIDForTipset"); pc != nil {
		g := callsTo(pc, false, "iface:Backend.GetPowerTable")
		c := callsTo(pc, false, "certs.MakePowerTableCID")
		add := callsTo(pc, false, lruPkg+"Add")
		get := callsTo(pc, false, lruPkg+"Get")
		ok := len(g) == 1 && len(c) == 1 && len(add) == 1 && len(get) == 1
		if ok {
			ok = g[0].Arg(2) == "$2" && strings.HasPrefix(c[0].Arg(0), "iface:Backend.GetPowerTable(") && add[0].Arg(1) == get[0].Arg(1) && add[0].Arg(1) == "string($2)" && strings.HasPrefix(add[0].Arg(2), "certs.MakePowerTableCID(")
		}
		r.Check(ok, "C15.R4", "getPowerTableCIDForTipset: CID of EC's power table at that tipset, cached under that tipset's key", p.c.Pos(pc.Pos()), "Get(string(tsk)) | MakePowerTableCID(ec.GetPowerTable(tsk)) → Add(string(tsk), cid)", "lookup, computation and cache no longer use the same tipset key")
	}

	// per-tipset power tables are memoised in two places; a failed or partial lookup must never be remembered
	// (a poisoned entry would make later proposals carry the CID of an empty/other table)
	if pc := p.fn("C15.R4", "f3.gpbftInputs.getPowerTableCIDForTipset"); pc != nil {
		adds := callSinks(pc, "CID remembered", lruPkg+"Add")
		if len(adds) > 0 {
			p.guarded("C15.R4", pc, adds, errFails("EC power table obtained", "iface:Backend.GetPowerTable", ""), errFails("CID computed", "certs.MakePowerTableCID", ""))
			p.guardedAfter("C15.R4", pc, okReturns(pc), errFails("EC power table obtained", "iface:Backend.GetPowerTable", ""), errFails("CID computed", "certs.MakePowerTableCID", ""))
		}
	}
	if ex := p.fn("C15.R4", "ec.PowerCachingECWrapper.executeGetPowerTable"); ex != nil {
		adds := callSinks(ex, "power table remembered", lruPkg+"Add")
		if len(adds) == 0 {
			r.Undecided("C15.R4", "PowerCachingECWrapper: cache insertion", "no cache insertion found")
		} else {
			p.guarded("C15.R4", ex, adds, errFails("backend lookup succeeded", "iface:Backend.GetPowerTable", ""))
			p.guardedAfter("C15.R4", ex, okReturns(ex), errFails("backend lookup succeeded", "iface:Backend.GetPowerTable", ""))
			for _, cs := range callsTo(ex, false, lruPkg+"Add") {
				r.Check(cs.Arg(1) == "string($2)" && cs.Arg(2) == "iface:Backend.GetPowerTable($0.Backend, $1, $2)#0", "C15.R4", "PowerCachingECWrapper: remembers the backend's table under the requested tipset key", p.c.InstrPos(cs.Instr), cs.Arg(1)+" ↦ "+cs.Arg(2), "cache entry "+cs.Arg(1)+" ↦ "+cs.Arg(2))
			}
		}
	}
	if gp := p.fn("C15.R4", "ec.PowerCachingECWrapper.GetPowerTable"); gp != nil {
		for _, cs := range callsTo(gp, false, lruPkg+"Get") {
			r.Check(cs.Arg(1) == "string($2)", "C15.R4", "PowerCachingECWrapper.GetPowerTable: cache consulted under the requested tipset key", p.c.InstrPos(cs.Instr), cs.Arg(1), "cache consulted under "+cs.Arg(1))
		}
	}

	// ---- R2
	if cc := p.fn("C15.R2", "f3.gpbftInputs.collectChain"); cc != nil {
		okSrc := true
		var srcs []string
		allValues(cc, func(v ssa.Value) {
			if c, ok := v.(*ssa.Call); ok {
				if b, isB := c.Call.Value.(*ssa.Builtin); isB && b.Name() == "append" {
					a := canon(c.Call.Args[1])
					srcs = append(srcs, a)
					if !(a == "[$3]" || strings.HasPrefix(a, "[iface:Backend.GetParent($0.ec, $1, ")) {
						okSrc = false
					}
				}
			}
		})
		r.Check(okSrc && len(srcs) == 2, "C15.R2", "collectChain: collects only the head and parents", p.c.Pos(cc.Pos()), strings.Join(srcs, " | "), "collected elements: "+strings.Join(srcs, " | "))
		for _, cs := range callsTo(cc, false, "iface:Backend.GetParent") {
			a := cs.Arg(2)
			r.Check(strings.HasPrefix(a, "phi($3|") || a == "$3", "C15.R2", "collectChain: each step takes the parent of the tipset walked so far", p.c.InstrPos(cs.Instr), a, "parent of "+a)
		}
		var full []Sink
		var empty int
		for _, ret := range returnsOf(cc) {
			if canon(retValue(ret, 1)) != "nil" {
				continue
			}
			v := canon(retValue(ret, 0))
			if v == "nil" {
				empty++
			} else {
				full = append(full, Sink{ret, "non-empty suffix returned"})
				r.Check(strings.HasSuffix(v, "[1:]"), "C15.R2", "collectChain: the base itself is dropped from the suffix", p.c.InstrPos(ret), v, "returns "+v)
			}
		}
		eq := callsTo(cc, false, "bytes.Equal")
		if len(full) != 1 || len(eq) != 1 {
			r.Fail("C15.R2", "collectChain: walk ends on key equality with the base", p.c.Pos(cc.Pos()), fmt.Sprintf("expected one non-empty return and one bytes.Equal on keys, found %d/%d", len(full), len(eq)))
		} else {
			a := []string{eq[0].Arg(0), eq[0].Arg(1)}
			sort.Strings(a)
			okK := strings.HasPrefix(a[0], "iface:TipSet.Key($2)") && strings.HasPrefix(a[1], "iface:TipSet.Key(phi($3|")
			r.Check(okK, "C15.R2", "collectChain: compares the walked tipset's key with the base's key", p.c.InstrPos(eq[0].Instr), strings.Join(a, " vs "), "compares "+strings.Join(a, " with "))
			p.guarded("C15.R2", cc, full, callResult("walk reached the base (same key)", "bytes.Equal", "", -1, avFalse))
			// divergence exits: below the base epoch without reaching it ⇒ empty
			r.Check(empty >= 2, "C15.R2", "collectChain: both divergence exits return an empty suffix", p.c.Pos(cc.Pos()), fmt.Sprintf("%d empty returns", empty), fmt.Sprintf("%d empty returns (head behind base, and reorg away from base)", empty))
			p.guarded("C15.R2", cc, full, cmpRel("head not behind the base", `^iface:TipSet\.Epoch\(\$3\)$`, `^iface:TipSet\.Epoch\(\$2\)$`, RelLT))
			p.guardedAfter("C15.R2", cc, append(full, callSinks(cc, "parent fetched", "iface:Backend.GetParent")...), cmpRel("walk has not passed below the base epoch", `^iface:TipSet\.Epoch\(phi\(\$3\|`, `^iface:TipSet\.Epoch\(\$2\)$`, RelLT))
			rev := callSinksRe(cc, "reverse", `^slices\.Reverse\(`)
			p.before("C15.R2", cc, "reverse to ascending order", rev, "return", full)
		}
	}

	// ---- R5
	if gc := p.fn("C15.R5", "f3.gpbftInputs.GetCommittee"); gc != nil {
		var thr *ssa.BinOp
		allValues(gc, func(v ssa.Value) {
			if b, ok := v.(*ssa.BinOp); ok && canon(b.X) == "$2" && thr == nil {
				switch b.Op {
				case token.LSS, token.LEQ, token.GEQ, token.GTR:
					thr = b
				}
			}
		})
		if thr == nil {
			r.Undecided("C15.R5", "GetCommittee: bootstrap threshold", "comparison not found")
		} else {
			y := renameLin(linOf(thr.Y), manifestSyms)
			if thr.Op == token.LEQ || thr.Op == token.GTR {
				y = y.add(linConst(1), 1)
			}
			r.Check(y.equal(Lin{T: map[string]int64{"Initial": 1, "Lookback": 1}}), "C15.R5", "GetCommittee: bootstrap table iff instance < Initial + Lookback", p.c.InstrPos(thr), "instance < "+y.String(), "bootstrap window is instance < "+y.String()+" — at the boundary the committee no longer comes from the head finalized Lookback instances earlier")
		}
		var lb *CallSite
		for _, cs := range callsTo(gc, false, "certstore.Store.Get") {
			if strings.Contains(cs.Arg(2), "$2") {
				c := cs
				lb = &c
			}
		}
		if lb == nil {
			r.Undecided("C15.R5", "GetCommittee: look-back certificate", "Get(instance − Lookback) not found")
		} else {
			l := renameLin(linOf(lb.ArgValues()[2]), manifestSyms)
			r.Check(l.equal(Lin{T: map[string]int64{"instance": 1, "Lookback": -1}}), "C15.R5", "GetCommittee: table at the head finalized by certificate instance − Lookback", p.c.InstrPos(lb.Instr), l.String(), "committee from certificate "+l.String())
			var fails []string
			noWrap(lb.ArgValues()[2], hypsAt(lb.Instr.Block()), map[ssa.Value]bool{}, &fails)
			r.Check(len(fails) == 0, "C15.R5", "GetCommittee: instance − Lookback cannot wrap", p.c.InstrPos(lb.Instr), "dominated by instance ≥ Initial + Lookback", strings.Join(fails, "; "))
		}
		gt := callsTo(gc, false, "iface:Backend.GetTipset")
		if len(gt) == 1 {
			var k []string
			for _, e := range phiEdgeCanons(gt[0].ArgValues()[2]) {
				// a helper returning (key, entries, err) renders its key as a nested phi whose error paths yield nil: flatten, drop nil
				for _, a := range splitAlternatives(e) {
					if a != "nil" {
						k = append(k, a)
					}
				}
			}
			k = uniq(k)
			ok := false
			for _, e := range k {
				if strings.HasPrefix(e, "gpbft.ECChain.Head(certstore.Store.Get($0.certStore, $1, ($2 - $0.manifest.CommitteeLookback))") && strings.HasSuffix(e, ".Key") {
					ok = true
				}
			}
			r.Check(ok && len(k) == 3, "C15.R5", "GetCommittee: beacon/tipset = head of the look-back certificate (or bootstrap tipset / first certificate's base)", p.c.InstrPos(gt[0].Instr), strings.Join(k, " | "), "tipset key from "+strings.Join(k, " | "))
		}
		for _, ret := range returnsOf(gc) {
			if a, ok := retValue(ret, 0).(*ssa.Alloc); ok {
				st := structStores(a)
				okB := st["Beacon"] != nil && strings.HasPrefix(canon(st["Beacon"]), "iface:TipSet.Beacon(iface:Backend.GetTipset(")
				r.Check(okB, "C15.R5", "GetCommittee: beacon of that tipset", p.c.InstrPos(ret), "ts.Beacon()", "beacon is not taken from the committee tipset")
			}
		}
		// ---- R6
		reach := reachableFuncs(p.c, gc)
		var bad []string
		n := 0
		for f := range reach {
			if !strings.HasPrefix(funcName(f), "f3.") {
				continue
			}
			for _, cs := range callSites(f, true) {
				c := cs.Callee()
				if strings.HasPrefix(c, "iface:Backend.") {
					n++
					m := strings.TrimPrefix(c, "iface:Backend.")
					if m != "GetTipsetByEpoch" && m != "GetTipset" && m != "GetPowerTable" {
						bad = append(bad, funcName(f)+"→"+m)
					}
				}
				if strings.HasPrefix(c, "iface:Clock.") && funcName(f) != "f3.gpbftInputs.GetCommittee$1" && !strings.Contains(funcName(f), "GetCommittee$") {
					bad = append(bad, funcName(f)+"→clock")
				}
			}
		}
		r.Check(len(bad) == 0 && n >= 3, "C15.R6", "GetCommittee: reads only finalized history (tipset by epoch/key, power table) — never the head, parents or the clock", p.c.Pos(gc.Pos()), fmt.Sprintf("%d EC calls in %d reachable f3 functions", n, len(reach)), "committee depends on "+strings.Join(bad, ", "))
		var fetch []Sink
		for _, cs := range callSites(gc, false) {
			if strings.HasPrefix(cs.Callee(), "iface:Backend.") {
				fetch = append(fetch, Sink{cs.Instr, cs.Callee()})
			}
		}
		r.Check(len(fetch) >= 3, "C15.R6", "GetCommittee: EC accesses enumerated", p.c.Pos(gc.Pos()), fmt.Sprint(len(fetch)), "EC accesses not found")
	}
	p.gBeginInstance("C15.R7")
}
