package main

import (
	"fmt"
	"strings"

	"golang.org/x/tools/go/ssa"
)

func init() { register("C06", c06) }

// C06 — termination once the network is timely. Liveness itself quantifies over
// schedules and time and is NOT decided. What is decided are structural
// conditions each of which is necessary for it under the property's own
// assumptions (no message lost, timely delivery from some point on): if one is
// broken there is a schedule within the quantifier on which an honest
// participant never decides.
func c06(p *P) {
	r := p.r
	r.Explanation = "Static necessary conditions of termination (liveness itself is not decided): (R1) a participant that has not terminated always has an alarm pending — every timed phase entry arms the phase alarm and records it, the alarm helper sets the host alarm to the time it returns, and once the rebroadcast timeout has elapsed tryRebroadcast re-arms an alarm on EVERY path (rebroadcast alarm or phase alarm); its first-time branch either arms an alarm or leaves the phase alarm pending after resetting its parameters; (R2) evidence carried by later messages is always recorded: a justified PREPARE's justification and a non-bottom COMMIT's justification are stored on every path that tallies the vote (they are what lets a lagging participant leave PREPARE/COMMIT, and beginNextRound panics without them); (R3) a valid DECIDE moves any earlier phase to DECIDE; (R4) a late starter receives its queued messages: beginInstance drains the queue of the new instance into ReceiveMany, and ReceiveMany drops only late-binding validation errors (matched by errors.As against the concrete type of the package's validation sentinels) instead of abandoning the rest of the queue; after tallying, the current phase is re-tried."
	r.NotDecided = "termination within the stated round bounds over all schedules and adversaries (a liveness property over time); sufficiency of the timeout values; the sway reasoning that lets honest participants converge."
	r.Assumptions = []string{"AS4: a DECIDE message has round 0", "AS6: go/types, go/ssa and the rule tables are correct"}
	r.Rule("C06.R1", "an alarm is always pending: phase entries arm it; tryRebroadcast re-arms on every path", 9)
	r.Rule("C06.R2", "justifications carried by PREPARE / COMMIT messages are always recorded", 2)
	r.Rule("C06.R3", "a valid DECIDE moves any earlier phase to DECIDE; the current phase is re-tried after every tally", 2)
	r.Rule("C06.R4", "queued messages delivered at instance start; only validation errors are skipped, nothing else is dropped", 5)

	// ---------------- R1
	for _, t := range transitions {
		if !t.alarm {
			continue
		}
		fn := p.fn("C06.R1", inst+t.fn)
		if fn == nil {
			continue
		}
		al := callSinks(fn, "phase alarm armed", inst+"alarmAfterSynchrony", inst+"alarmAfterSynchronyWithMulti")
		var rets []Sink
		for _, ret := range returnsOf(fn) {
			if c := ""; len(ret.Results) == 0 || canon(ret.Results[len(ret.Results)-1]) == "nil" || c == "" {
				// only normal completions of the transition (an error return leaves the phase unchanged)
				if len(ret.Results) > 0 && canon(ret.Results[len(ret.Results)-1]) != "nil" {
					continue
				}
				rets = append(rets, Sink{ret, "transition completes"})
			}
		}
		p.before("C06.R1", fn, "phase alarm armed", al, "transition completes", rets)
	}
	if al := p.fn("C06.R1", inst+"alarmAfterSynchronyWithMulti"); al != nil {
		sa := callsTo(al, false, "iface:Host.SetAlarm")
		ok := len(sa) == 1
		if ok {
			for _, ret := range returnsOf(al) {
				if len(ret.Results) == 1 && canon(ret.Results[0]) != sa[0].Arg(1) {
					ok = false
				}
			}
		}
		r.Check(ok, "C06.R1", inst+"alarmAfterSynchronyWithMulti: the host alarm is set to the time that is returned (and recorded as the phase timeout)", p.c.Pos(al.Pos()), "SetAlarm(t); return t", "the alarm set and the timeout recorded differ — phaseTimeoutElapsed would never (or prematurely) hold when the alarm fires")
		var rets []Sink
		for _, ret := range returnsOf(al) {
			rets = append(rets, Sink{ret, "return"})
		}
		p.before("C06.R1", al, "host alarm set", callSinks(al, "host alarm set", "iface:Host.SetAlarm"), "return", rets)
	}
	if tr := p.fn("C06.R1", inst+"tryRebroadcast"); tr != nil {
		alarms := callSinks(tr, "alarm set", "iface:Host.SetAlarm")
		var via []ssa.Instruction
		for _, a := range alarms {
			via = append(via, a.Instr)
		}
		if len(alarms) < 2 {
			r.Undecided("C06.R1", inst+"tryRebroadcast: alarms", fmt.Sprintf("expected alarm-setting calls, found %d", len(alarms)))
		} else {
			// case "rebroadcast timeout elapsed": not the first-time case, timeout elapsed
			first := union(cmpRel("", `^\$0\.rebroadcastAttempts$`, `^0$`, RelGT), callResult("", "time.Time.IsZero", `rebroadcastTimeout`, -1, avFalse))
			inj := callResult("", inst+"rebroadcastTimeoutElapsed", "", -1, avTrue).with(first).all(tr)
			// also the inlined form of the helper (atOrAfter(now, rebroadcastTimeout))
			for k, v := range callResult("", "gpbft.atOrAfter", `rebroadcastTimeout`, -1, avTrue).Match(tr) {
				inj[k] = v
			}
			s := RunSCCP(tr, inj)
			bad := ""
			n := 0
			for _, ret := range returnsOf(tr) {
				if !s.Reachable(ret) {
					continue
				}
				n++
				if okm, _ := mustPassTo(tr, s, via, ret); !okm {
					bad = "return at " + p.c.InstrPos(ret) + " is reachable without any SetAlarm"
				}
			}
			if n == 0 {
				r.Undecided("C06.R1", inst+"tryRebroadcast: after a rebroadcast an alarm is re-armed on every path", "no reachable return under the injected case")
			} else {
				r.Check(bad == "", "C06.R1", inst+"tryRebroadcast: after a rebroadcast an alarm is re-armed on every path", p.c.Pos(tr.Pos()), "every path through the elapsed case passes a SetAlarm", bad+" — with no alarm pending and no further message the participant never acts again")
			}
			// first-time case: alarm set, or parameters reset (the phase alarm is still pending)
			resets := callSinks(tr, "rebroadcast parameters reset", inst+"resetRebroadcastParams")
			via2 := append([]ssa.Instruction{}, via...)
			for _, x := range resets {
				via2 = append(via2, x.Instr)
			}
			for _, fs := range fieldStores(tr, false, "instance", "rebroadcastAttempts") {
				if isZeroConst(fs.Store.Val) {
					via2 = append(via2, fs.Store)
				}
			}
			inj1 := cmpRel("", `^\$0\.rebroadcastAttempts$`, `^0$`, RelEQ).with(callResult("", "time.Time.IsZero", `rebroadcastTimeout`, -1, avTrue)).all(tr)
			s1 := RunSCCP(tr, inj1)
			bad1, n1 := "", 0
			for _, ret := range returnsOf(tr) {
				if !s1.Reachable(ret) {
					continue
				}
				n1++
				if okm, _ := mustPassTo(tr, s1, via2, ret); !okm {
					bad1 = "return at " + p.c.InstrPos(ret) + " reachable with neither an alarm set nor the parameters reset"
				}
			}
			if n1 == 0 {
				r.Undecided("C06.R1", inst+"tryRebroadcast: first-time case arms an alarm or resets", "no reachable return under the injected case")
			} else {
				r.Check(bad1 == "", "C06.R1", inst+"tryRebroadcast: first-time case arms an alarm or resets its parameters", p.c.Pos(tr.Pos()), "SetAlarm or resetRebroadcastParams on every path", bad1)
			}
		}
	}
	// tryDecide without a quorum keeps rebroadcasting (the only alarm source in DECIDE)
	if td := p.fn("C06.R1", inst+"tryDecide"); td != nil {
		rb := callSinks(td, "rebroadcast tried", inst+"tryRebroadcast")
		if len(rb) == 0 {
			r.Fail("C06.R1", inst+"tryDecide: without a DECIDE quorum the rebroadcast (and its alarm) is tried", p.c.Pos(td.Pos()), "no tryRebroadcast call")
		} else {
			inj := callResult("", "gpbft.quorumState.FindStrongQuorumValue", "", 1, avFalse).all(td)
			s := RunSCCP(td, inj)
			ok := false
			for _, x := range rb {
				if s.Reachable(x.Instr) {
					ok = true
				}
			}
			var via []ssa.Instruction
			for _, x := range rb {
				via = append(via, x.Instr)
			}
			for _, ret := range returnsOf(td) {
				if s.Reachable(ret) {
					if okm, _ := mustPassTo(td, s, via, ret); !okm {
						ok = false
					}
				}
			}
			r.Check(ok, "C06.R1", inst+"tryDecide: without a DECIDE quorum the rebroadcast (and its alarm) is tried", p.c.Pos(td.Pos()), "tryRebroadcast on every such path", "tryDecide can return without trying to rebroadcast although no DECIDE quorum exists")
		}
	}

	p.gHandleDecisionAlarm("C06.R1")
	p.gProposalIsCandidate("C06.R5")
	p.gBeginInstance("C06.R5")
	p.gProposalProvenance("C06.R5")
	r.Rule("C06.R5", "the participant can always use its own proposal: adopted values become candidates, late QUALITY extends candidates from the input, the start never fails on a long honest chain", 20)
	// ---------------- R2 / R3 (receiveOne)
	if ro := p.fn("C06.R2", inst+"receiveOne"); ro != nil {
		type carry struct {
			name, tally, recvRe, justRe string
			cond                         VM
			after                        []string
		}
		cases := []carry{
			{"COMMIT for a non-bottom value", "committed", `\.committed`, `\.committed`, callResult("", "gpbft.ECChain.IsZero", `\$1\.Vote\.Value`, -1, avFalse), []string{inst + "tryCommit"}},
			{"justified PREPARE", "prepared", `\.prepared`, `\.prepared`, canonIs("", `^\$1\.Justification$`, avNonNil), []string{inst + "tryCurrentPhase"}},
		}
		for _, c := range cases {
			var recv, just []ssa.Instruction
			for _, cs := range callsTo(ro, false, "gpbft.quorumState.Receive") {
				if re(c.recvRe).MatchString(cs.Arg(0)) {
					recv = append(recv, cs.Instr)
				}
			}
			for _, cs := range callsTo(ro, false, "gpbft.quorumState.ReceiveJustification") {
				if re(c.justRe).MatchString(cs.Arg(0)) {
					just = append(just, cs.Instr)
				}
			}
			construct := inst + "receiveOne: the justification of a " + c.name + " is recorded whenever the vote is tallied"
			if len(recv) == 0 || len(just) == 0 {
				r.Fail("C06.R2", construct, p.c.Pos(ro.Pos()), fmt.Sprintf("tally calls %d, justification-recording calls %d", len(recv), len(just)))
				continue
			}
			s := RunSCCP(ro, c.cond.all(ro))
			bad := ""
			// every return reachable after the tally must have passed the recording call
			for _, ret := range returnsOf(ro) {
				if !s.Reachable(ret) {
					continue
				}
				after := false
				for _, rc := range recv {
					if s.reachableAfter(rc, ret) {
						after = true
					}
				}
				if !after {
					continue
				}
				// paths entry → ret that pass the tally but no recording: block recording nodes, see if ret still reachable from the tally
				for _, rc := range recv {
					if reachAvoiding(s, rc, ret, just) {
						bad = "return at " + p.c.InstrPos(ret) + " is reachable from the tally without recording the justification"
					}
				}
			}
			r.Check(bad == "", "C06.R2", construct, p.c.InstrPos(recv[0]), "ReceiveJustification on every path after Receive", bad+" — the evidence that lets a lagging participant advance (and that beginNextRound requires) would be lost")
		}
		// R3: DECIDE
		sk := callSinks(ro, "skip to DECIDE", inst+"skipToDecide")
		if len(sk) == 0 {
			r.Fail("C06.R3", inst+"receiveOne: a DECIDE message moves an earlier phase to DECIDE", p.c.Pos(ro.Pos()), "no skipToDecide call")
		} else {
			var dec []ssa.Instruction
			for _, cs := range callsTo(ro, false, "gpbft.quorumState.Receive") {
				if strings.HasSuffix(cs.Arg(0), ".decision") {
					dec = append(dec, cs.Instr)
				}
			}
			inj := cmpRel("", `^\$0\.current\.Instant\.Phase$`, `^5:Phase$`, RelLT).all(ro)
			s := RunSCCP(ro, inj)
			bad := ""
			if len(dec) == 0 {
				bad = "DECIDE votes are not tallied"
			}
			var via []ssa.Instruction
			for _, x := range sk {
				via = append(via, x.Instr)
			}
			for _, ret := range returnsOf(ro) {
				for _, d := range dec {
					if s.Reachable(ret) && s.reachableAfter(d, ret) && reachAvoiding(s, d, ret, via) {
						bad = "return at " + p.c.InstrPos(ret) + " reachable after tallying a DECIDE without skipping to DECIDE"
					}
				}
			}
			r.Check(bad == "", "C06.R3", inst+"receiveOne: a DECIDE message moves an earlier phase to DECIDE", p.c.InstrPos(sk[0].Instr), "skipToDecide on every path when the phase is before DECIDE", bad)
		}
		// after a tally the current phase is re-tried (the last statement of receiveOne)
		tc := callSinks(ro, "current phase re-tried", inst+"tryCurrentPhase")
		r.Check(len(tc) > 0, "C06.R3", inst+"receiveOne: the current phase is re-tried after a tally", p.c.Pos(ro.Pos()), "tryCurrentPhase", "no tryCurrentPhase call in receiveOne — progress would only happen on alarms")
	}

	// ---------------- R4
	if bi := p.fn("C06.R4", "gpbft.Participant.beginInstance"); bi != nil {
		dr := callsTo(bi, false, "gpbft.messageQueue.Drain")
		rm := callsTo(bi, false, inst+"ReceiveMany")
		ok := len(dr) == 1 && len(rm) == 1
		if ok {
			ok = strings.HasPrefix(rm[0].Arg(1), "gpbft.messageQueue.Drain(") && strings.Contains(dr[0].Arg(1), ".current.Instant.ID")
		}
		r.Check(ok, "C06.R4", "beginInstance: the messages queued for the new instance are delivered to it", p.c.Pos(bi.Pos()), "ReceiveMany(mqueue.Drain(instance id))", "queued messages of the new instance are not handed to it")
		var rets []Sink
		for _, ret := range okReturns(bi) {
			rets = append(rets, ret)
		}
		p.before("C06.R4", bi, "queued messages delivered", callSinks(bi, "queued messages delivered", inst+"ReceiveMany"), "successful start", rets)
	}
	if rm := p.fn("C06.R4", inst+"ReceiveMany"); rm != nil {
		// errors.As target type = concrete type of the validation sentinels
		sent := ""
		if pk := p.c.Pkg("gpbft"); pk != nil && pk.Types != nil {
			if obj := pk.Types.Scope().Lookup("ErrValidationWrongBase"); obj != nil {
				sent = shortType(obj.Type())
				if sent == "error" {
					// declared as error: take the concrete type stored by the package initialiser
					if g := p.c.Fn("gpbft.init"); g != nil {
						for _, in := range instrsOf(g) {
							if st, ok := in.(*ssa.Store); ok {
								if gl, ok := st.Addr.(*ssa.Global); ok && gl.Name() == "ErrValidationWrongBase" {
									if mi, ok := st.Val.(*ssa.MakeInterface); ok {
										sent = shortType(mi.X.Type())
									}
								}
							}
						}
					}
				}
			}
		}
		as := callsTo(rm, false, "errors.As")
		if sent == "" || len(as) != 1 {
			r.Undecided("C06.R4", inst+"ReceiveMany: validation errors recognised", fmt.Sprintf("sentinel type %q, errors.As calls %d", sent, len(as)))
		} else {
			tgt := as[0].ArgValues()[1]
			if mi, ok := tgt.(*ssa.MakeInterface); ok {
				tgt = mi.X
			}
			got := shortType(tgt.Type())
			r.Check(got == "*"+sent, "C06.R4", inst+"ReceiveMany: late-binding validation errors are recognised by their concrete type", p.c.InstrPos(as[0].Instr), "errors.As(err, *"+sent+")", "errors.As target has type "+got+" but the validation sentinels are "+sent+" values — the match never succeeds, so one foreign-base message in the queue makes the late starter drop every queued DECIDE")
			// a recognised validation error does not end the delivery
			inj := errFails("", inst+"receiveOne", "").with(callResult("", "errors.As", "", -1, avTrue)).all(rm)
			s := RunSCCP(rm, inj)
			bad := ""
			for _, ret := range errReturns(rm) {
				if s.Reachable(ret.Instr) && !strings.Contains(canon(ret.Instr.(*ssa.Return).Results[0]), "ErrReceivedAfterTermination") {
					bad = "error return at " + p.c.InstrPos(ret.Instr) + " reachable for a validation error"
				}
			}
			r.Check(bad == "", "C06.R4", inst+"ReceiveMany: a validation error skips that message only", p.c.Pos(rm.Pos()), "no error return on a recognised validation error", bad)
		}
		pr := callSinks(rm, "skip-ahead check", inst+"postReceive")
		var rets []Sink
		for _, ret := range okReturns(rm) {
			rets = append(rets, ret)
		}
		if len(pr) > 0 && len(rets) > 0 {
			r.OK("C06.R4", inst+"ReceiveMany: rounds received are examined for a skip", p.c.InstrPos(pr[0].Instr), "postReceive called")
		} else {
			r.Fail("C06.R4", inst+"ReceiveMany: rounds received are examined for a skip", p.c.Pos(rm.Pos()), "postReceive not called")
		}
	}
}

// reachAvoiding: along executable edges of s, can `to` be reached from `from` without passing any of `avoid`?
func reachAvoiding(s *SCCP, from, to ssa.Instruction, avoid []ssa.Instruction) bool {
	block := map[*VNode]bool{}
	for _, v := range avoid {
		if n := s.vf.nodeOf[v]; n != nil {
			block[n] = true
		}
	}
	fn, tn := s.vf.nodeOf[from], s.vf.nodeOf[to]
	if fn == nil || tn == nil {
		return false
	}
	if posInNode(fn, from) < 0 || posInNode(tn, to) < 0 {
		return false
	}
	if block[fn] {
		// the avoided call sits in the same node as the start: if it comes after the start, the path is blocked
		for _, in := range fn.Instrs[posInNode(fn, from)+1:] {
			for _, a := range avoid {
				if in == a {
					return false
				}
			}
		}
	}
	seen := map[*VNode]bool{}
	q := []*VNode{}
	for _, su := range fn.Succs {
		if s.edge[[2]int{fn.Idx, su.Idx}] {
			q = append(q, su)
		}
	}
	if fn == tn && posInNode(fn, to) > posInNode(fn, from) {
		return true
	}
	for len(q) > 0 {
		cur := q[0]
		q = q[1:]
		if seen[cur] {
			continue
		}
		seen[cur] = true
		if cur == tn {
			// reached the target node: blocked only if an avoided instr precedes the target inside it
			pre := false
			for _, in := range cur.Instrs[:posInNode(cur, to)] {
				for _, a := range avoid {
					if in == a {
						pre = true
					}
				}
			}
			if !pre {
				return true
			}
			continue
		}
		if block[cur] {
			continue
		}
		for _, su := range cur.Succs {
			if s.edge[[2]int{cur.Idx, su.Idx}] {
				q = append(q, su)
			}
		}
	}
	return false
}
