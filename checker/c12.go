package main

import (
	"fmt"
	"strings"

	"golang.org/x/tools/go/ssa"
)

func init() { register("C12", c12) }

const topicPublish = "github.com/libp2p/go-libp2p-pubsub.Topic.Publish"

func c12(p *P) {
	r := p.r
	r.Explanation = "Static necessary conditions of no self-equivocation on the wire: (R1/R2) in BroadcastMessage and rebroadcastMessage every outward effect (chain broadcast, topic publish, and for broadcasts the WAL append) is unreachable when the equivocation filter refuses the message; filter ≺ WAL append ≺ publish, and what is appended is the message that is published; (R3) the consensus topic's Publish has no other caller; (R4) on start every WAL entry is fed to the filter before the runner exists, and a WAL read error prevents start; (R5) the filter's decision table (instance <,=,> current × slot seen × signature equal × local origin), extracted by SCCP: past instance → refuse without state change; conflicting local signature → refuse; a stored signature is never overwritten; a newer instance resets the slot map before the lookup; the slot key binds sender, round and phase; (R6) the WAL entry serialises the whole message, its epoch is the message's instance, and read-back entries are distinct objects; (R7) the WAL purge bound is instance − 5 computed without unsigned wrap-around."
	r.NotDecided = "pubsub delivery; behaviour under storage errors (the property assumes none: a failed WAL append is logged and the message is still published); another node using the same identity."
	r.Assumptions = []string{"AS1: WAL append durability (C11)", "AS6: go/types, go/ssa and the rule tables are correct"}
	r.Rule("C12.R1", "BroadcastMessage: filter ≺ WAL append ≺ publish; nothing leaves when the filter refuses", 8)
	r.Rule("C12.R2", "rebroadcastMessage: nothing leaves when the filter refuses", 3)
	r.Rule("C12.R3", "consensus topic Publish only from the two broadcast functions", 3)
	r.Rule("C12.R4", "start: every WAL entry re-arms the filter before the runner is returned", 3)
	r.Rule("C12.R5", "filter decision table", 8)
	r.Rule("C12.R6", "WAL entry = whole message; epoch = instance; distinct objects on read-back", 4)
	r.Rule("C12.R7", "purge bound = instance − 5 without wrap-around", 2)
	p.include(c11, map[string]string{"C11.R1": "C12.R8", "C11.R2": "C12.R8b", "C11.R3": "C12.R8c"}, map[string]string{"C12.R8": "the record is durable when Append returns (write ≺ fsync ≺ ack)", "C12.R8b": "restart reads back every acknowledged record", "C12.R8c": "restart never overwrites an old log file"})

	filter := "f3.equivocationFilter.ProcessBroadcast"
	refuse := callResult("filter accepts", filter, "", -1, avFalse)

	// ---------- R1
	if bm := p.fn("C12.R1", "f3.gpbftRunner.BroadcastMessage"); bm != nil {
		fl := callSinks(bm, "equivocation filter", filter)
		ap := callSinks(bm, "WAL append", walPkg+"Append")
		pub := callSinksVia(bm, "publish", topicPublish)
		bc := callSinksRe(bm, "chain broadcast", `BroadcastChain\(`)
		out := append(append(append([]Sink{}, ap...), pub...), bc...)
		p.guarded("C12.R1", bm, out, refuse)
		p.before("C12.R1", bm, "equivocation filter", fl, "WAL append", ap)
		p.before("C12.R1", bm, "WAL append", ap, "publish", pub)
		p.before("C12.R1", bm, "WAL append", ap, "chain broadcast", bc)
		for _, cs := range callsTo(bm, false, filter) {
			r.Check(cs.Arg(1) == "$2" && cs.Arg(0) == "&$0.equivFilter", "C12.R1", "BroadcastMessage: the filter sees the message to be sent", p.c.InstrPos(cs.Instr), cs.Arg(1), "filter is given "+cs.Arg(1))
		}
		for _, cs := range callsTo(bm, false, walPkg+"Append") {
			v := cs.ArgValues()[1]
			ok := false
			if u, isU := v.(*ssa.UnOp); isU {
				if a, isA := u.X.(*ssa.Alloc); isA {
					if m := structStores(a)["Message"]; m != nil && canon(m) == "$2" {
						ok = true
					}
				}
			}
			r.Check(ok, "C12.R1", "BroadcastMessage: the WAL records the very message being sent", p.c.InstrPos(cs.Instr), "walEntry{msg}", "WAL append argument is "+canon(v))
		}
		for _, cs := range callsTo(bm, false, topicPublish) {
			pl := cs.Arg(2)
			r.Check(strings.Contains(pl, "ToPartialGMessage(") && strings.Contains(pl, ", $2)") && cs.Arg(0) == "$0.topic", "C12.R1", "BroadcastMessage: publishes the (partial form of the) filtered message on the consensus topic", p.c.InstrPos(cs.Instr), pl, "publishes "+pl+" on "+cs.Arg(0))
		}
		if len(pub) != 1 {
			r.Fail("C12.R1", "BroadcastMessage: one publish", p.c.Pos(bm.Pos()), fmt.Sprintf("%d publish sites", len(pub)))
		}
	}
	// ---------- R2
	if rb := p.fn("C12.R2", "f3.gpbftRunner.rebroadcastMessage"); rb != nil {
		pub := callSinksVia(rb, "publish", topicPublish)
		bc := callSinksRe(rb, "chain broadcast", `BroadcastChain\(`)
		p.guarded("C12.R2", rb, append(append([]Sink{}, pub...), bc...), refuse)
		for _, cs := range callsTo(rb, false, filter) {
			r.Check(cs.Arg(1) == "$1", "C12.R2", "rebroadcastMessage: the filter sees the message to be re-sent", p.c.InstrPos(cs.Instr), cs.Arg(1), "filter is given "+cs.Arg(1))
		}
		for _, cs := range callsTo(rb, false, topicPublish) {
			pl := cs.Arg(2)
			r.Check(strings.Contains(pl, "ToPartialGMessage(") && strings.Contains(pl, ", $1)"), "C12.R2", "rebroadcastMessage: publishes the filtered message", p.c.InstrPos(cs.Instr), pl, "publishes "+pl)
		}
	}
	// ---------- R3
	nPub := 0
	for _, f := range p.c.ProdFuncs() {
		if !strings.HasPrefix(funcName(f), "f3.") {
			continue
		}
		for _, cs := range callsTo(f, false, topicPublish) {
			if !strings.HasSuffix(cs.Arg(0), ".topic") || !strings.Contains(funcName(f), "gpbftRunner") {
				// other topics (manifest etc.) are not the consensus topic
				if strings.Contains(shortType(cs.ArgValues()[0].Type()), "Topic") && strings.Contains(funcName(f), "gpbftRunner") {
					nPub++
					r.Fail("C12.R3", "consensus topic published from "+funcName(f), p.c.InstrPos(cs.Instr), "gpbftRunner publishes on a topic outside the filtered broadcast paths")
				}
				continue
			}
			nPub++
			fnm := funcName(f)
			okPub := map[string]bool{"f3.gpbftRunner.BroadcastMessage": true, "f3.gpbftRunner.rebroadcastMessage": true}
			r.Check(okPub[fnm] || p.onlyReachedFrom(f, okPub, 0), "C12.R3", "consensus topic Publish called from "+fnm, p.c.InstrPos(cs.Instr), "filtered path", "Publish on the consensus topic outside the two filtered functions — bypasses the equivocation filter and the WAL")
		}
	}
	if nPub < 1 {
		r.Undecided("C12.R3", "publish sites", fmt.Sprintf("%d publish sites on the consensus topic found", nPub))
	}
	for _, fnm := range []string{"f3.gpbftRunner.BroadcastMessage", "f3.gpbftRunner.rebroadcastMessage"} {
		if f := p.c.Fn(fnm); f != nil {
			r.Check(len(callSinksVia(f, "publish", topicPublish)) >= 1, "C12.R3", fnm+": publishes (directly or through a private helper)", p.c.Pos(f.Pos()), "publish site present", "no publish reachable from "+fnm)
		}
	}
	// ---------- R4
	if nr := p.fn("C12.R4", "f3.newRunner"); nr != nil {
		all := callsTo(nr, false, walPkg+"All")
		pb := callsTo(nr, false, filter)
		if len(all) != 1 || len(pb) != 1 {
			r.Fail("C12.R4", "newRunner: WAL replayed into the filter", p.c.Pos(nr.Pos()), fmt.Sprintf("expected one WAL.All and one ProcessBroadcast call, found %d/%d — the filter is not re-armed from the durable record", len(all), len(pb)))
		} else {
			arg := pb[0].Arg(1)
			// the range variable is a copy of an element of WAL.All()'s result
			fromAll := false
			allValues(nr, func(v ssa.Value) {
				if a, ok := v.(*ssa.Alloc); ok && strings.HasSuffix(shortType(a.Type()), "f3.walEntry") {
					for _, sv := range storesTo(a) {
						if strings.Contains(canon(sv), walPkg+"All(") {
							fromAll = true
						}
					}
				}
			})
			r.Check((fromAll || strings.Contains(arg, walPkg+"All(")) && strings.HasSuffix(arg, ".Message"), "C12.R4", "newRunner: each WAL entry's message is fed to the filter", p.c.InstrPos(pb[0].Instr), arg, "filter is fed "+arg)
			// … and it is the RUNNER's filter that is re-armed (not a local copy that is thrown away)
			recv := pb[0].Arg(0)
			r.Check(strings.HasSuffix(recv, "f3.gpbftRunner.equivFilter") && strings.HasPrefix(recv, "&"), "C12.R4", "newRunner: the replay re-arms the runner's own filter", p.c.InstrPos(pb[0].Instr), recv, "the WAL is replayed into "+recv+", not into the filter the runner uses — after a restart the node has forgotten every vote it logged")
			p.fullRangeLoop("C12.R4", "newRunner: every WAL entry is replayed", pb[0].Instr, nil)
			var okRet []Sink
			for _, ret := range returnsOf(nr) {
				if canon(retValue(ret, 1)) == "nil" {
					okRet = append(okRet, Sink{ret, "runner returned"})
				}
			}
			p.guarded("C12.R4", nr, okRet, errFails("WAL readable", walPkg+"All", ""))
			p.before("C12.R4", nr, "WAL read", []Sink{{all[0].Instr, "WAL read"}}, "runner returned", okRet)
		}
	}
	// ---------- R5 the first signature recorded for a slot is never forgotten while its instance is current:
	// no production code deletes from (or clears) seenMessages; the only reset is the fresh map installed on a newer instance (checked below).
	{
		n := 0
		for _, f := range p.c.ProdFuncs() {
			for _, in := range instrsOf(f) {
				call, ok := in.(*ssa.Call)
				if !ok {
					continue
				}
				bi, ok := call.Call.Value.(*ssa.Builtin)
				if !ok || (bi.Name() != "delete" && bi.Name() != "clear") || len(call.Call.Args) == 0 {
					continue
				}
				if strings.Contains(shortType(call.Call.Args[0].Type()), "equivocationKey]") || strings.HasSuffix(canon(call.Call.Args[0]), ".seenMessages") {
					n++
					r.Fail("C12.R5", "recorded slot signatures are never deleted", p.c.InstrPos(call), bi.Name()+" on the filter's slot map in "+funcName(f)+" — a forgotten first signature lets a conflicting message for that slot through (e.g. after a restart re-enters an earlier round)")
				}
			}
		}
		if n == 0 {
			r.OK("C12.R5", "recorded slot signatures are never deleted", "", "no delete/clear on the filter's slot map in production code")
		}
	}
	if pf := p.fn("C12.R5", filter); pf != nil {
		inst, cur := `^\$1\.Vote\.Instance$`, `^\$0\.currentInstance$`
		var seenUpd, otherUpd []Sink
		for _, b := range pf.Blocks {
			for _, in := range b.Instrs {
				if mu, ok := in.(*ssa.MapUpdate); ok {
					if strings.HasSuffix(canon(mu.Map), ".seenMessages") || strings.Contains(canon(mu.Map), "equivocationKey]f3.equivMessage") {
						seenUpd = append(seenUpd, Sink{mu, "slot signature stored"})
					} else {
						otherUpd = append(otherUpd, Sink{mu, "sender bookkeeping"})
					}
				}
			}
		}
		var stores []Sink
		for _, f := range []string{"currentInstance", "seenMessages", "activeSenders"} {
			for _, fs := range fieldStores(pf, false, "equivocationFilter", f) {
				stores = append(stores, Sink{fs.Store, "filter." + f + " reset"})
			}
		}
		pos := constReturns(pf, 0, "true")
		// also returns of a computed value (origins[0] == localPID) count as possibly-true
		for _, ret := range returnsOf(pf) {
			if ret.Block() == pf.Recover {
				continue
			}
			if c := canon(retValue(ret, 0)); c != "true" && c != "false" {
				pos = append(pos, Sink{ret, "return " + c})
			}
		}
		if len(seenUpd) != 1 || len(stores) != 3 || len(pos) == 0 {
			r.Undecided("C12.R5", "ProcessBroadcast: shape", fmt.Sprintf("slot stores=%d resets=%d positive returns=%d", len(seenUpd), len(stores), len(pos)))
		} else {
			past := cmpRel("instance not in the past", inst, cur, RelLT)
			every := append(append(append(append([]Sink{}, seenUpd...), otherUpd...), stores...), pos...)
			p.guarded("C12.R5", pf, every, past)
			// same slot, different signature, stored origin local → refuse
			conflict := union(canonIs("", `\.seenMessages\[.*\]#1$`, avTrue), callResult("", "bytes.Equal", "", -1, avFalse), cmpRel("", `\.origin$`, `^\$0\.localPID$`, RelEQ))
			conflict.Name = "no conflicting signature recorded from this node"
			p.guarded("C12.R5", pf, pos, conflict)
			// a stored signature is never overwritten
			seen := canonIs("slot not yet recorded", `\.seenMessages\[.*\]#1$`, avTrue)
			p.guarded("C12.R5", pf, seenUpd, seen)
			// a new slot is recorded
			inj := canonIs("", `\.seenMessages\[.*\]#1$`, avFalse).Match(pf)
			for k, v := range cmpRel("", inst, cur, RelEQ).Match(pf) {
				inj[k] = v
			}
			s := RunSCCP(pf, inj)
			r.Check(s.Reachable(seenUpd[0].Instr), "C12.R5", "ProcessBroadcast: the first message of a slot has its signature recorded", p.c.InstrPos(seenUpd[0].Instr), "store reachable when the slot is new", "a new slot is not recorded")
			mu := seenUpd[0].Instr.(*ssa.MapUpdate)
			val := ""
			if u, ok := mu.Value.(*ssa.UnOp); ok {
				if a, ok := u.X.(*ssa.Alloc); ok {
					st := structStores(a)
					if st["signature"] != nil && st["origin"] != nil {
						val = canon(st["signature"]) + "/" + canon(st["origin"])
					}
				}
			}
			r.Check(val == "$1.Signature/$0.localPID", "C12.R5", "ProcessBroadcast: records (the message's signature, local origin)", p.c.InstrPos(mu), val, "records "+val)
			r.Check(strings.HasPrefix(canon(mu.Key), "f3.equivocationFilter.formKey($0, $1)"), "C12.R5", "ProcessBroadcast: slot key = formKey(message)", p.c.InstrPos(mu), canon(mu.Key), "key is "+canon(mu.Key))
			// newer instance: reset happens before the lookup
			injNew := cmpRel("", inst, cur, RelGT).Match(pf)
			var lookup ssa.Instruction
			allValues(pf, func(v ssa.Value) {
				if l, ok := v.(*ssa.Lookup); ok && strings.HasSuffix(canon(l.X), ".seenMessages") {
					lookup = l
				}
			})
			if lookup == nil {
				r.Undecided("C12.R5", "ProcessBroadcast: slot lookup", "lookup not found")
			} else {
				sn := RunSCCP(pf, injNew)
				var via []ssa.Instruction
				for _, st := range stores {
					if strings.Contains(st.Label, "seenMessages") {
						via = append(via, st.Instr)
					}
				}
				okm, _ := mustPassTo(pf, sn, via, lookup)
				r.Check(okm, "C12.R5", "ProcessBroadcast: a newer instance resets the slot map before the lookup", p.c.InstrPos(lookup), "reset on every path to the lookup when instance > current", "slots of an older instance can be consulted for a newer instance")
				for _, st := range stores {
					if strings.Contains(st.Label, "currentInstance") {
						r.Check(canon(st.Instr.(*ssa.Store).Val) == "$1.Vote.Instance", "C12.R5", "ProcessBroadcast: current instance advances to the message's instance", p.c.InstrPos(st.Instr), "$1.Vote.Instance", "current instance set to "+canon(st.Instr.(*ssa.Store).Val))
					}
				}
				// resets only when the instance is newer
				p.guarded("C12.R5", pf, stores, cmpRel("instance newer than current", inst, cur, RelEQ))
			}
		}
	}
	if fk := p.fn("C12.R5", "f3.equivocationFilter.formKey"); fk != nil {
		ok := false
		for _, ret := range returnsOf(fk) {
			v := retValue(ret, 0)
			var st map[string]ssa.Value
			if u, isU := v.(*ssa.UnOp); isU {
				if a, isA := u.X.(*ssa.Alloc); isA {
					st = structStores(a)
				}
			}
			if st != nil && st["Sender"] != nil && st["Round"] != nil && st["Phase"] != nil {
				ok = canon(st["Sender"]) == "$1.Sender" && canon(st["Round"]) == "$1.Vote.Round" && canon(st["Phase"]) == "$1.Vote.Phase"
			}
		}
		r.Check(ok, "C12.R5", "formKey: slot = (sender, round, phase) of the message", p.c.Pos(fk.Pos()), "Sender, Vote.Round, Vote.Phase", "slot key no longer binds sender, round and phase")
	}
	if pr := p.fn("C12.R5", "f3.equivocationFilter.ProcessReceive"); pr != nil {
		var upd []Sink
		for _, b := range pr.Blocks {
			for _, in := range b.Instrs {
				if mu, ok := in.(*ssa.MapUpdate); ok && strings.HasSuffix(canon(mu.Map), ".seenMessages") {
					upd = append(upd, Sink{mu, "slot stored on receive"})
				}
			}
		}
		if len(upd) > 0 {
			p.guarded("C12.R5", pr, upd, canonIs("slot not yet recorded", `\.seenMessages\[.*\]#1$`, avTrue), cmpRel("same instance", `^\$2\.Vote\.Instance$`, `^\$0\.currentInstance$`, RelNE))
		}
	}

	// ---------- R6
	if m := p.fn("C12.R6", "f3.walEntry.MarshalCBOR"); m != nil {
		cs := callsTo(m, false, "gpbft.GMessage.MarshalCBOR")
		r.Check(len(cs) == 1 && cs[0].Arg(0) == "$0.Message" && cs[0].Arg(1) == "$1", "C12.R6", "walEntry.MarshalCBOR: serialises the whole message", p.c.Pos(m.Pos()), "Message.MarshalCBOR(w)", "the WAL record no longer contains the whole message")
	}
	if e := p.fn("C12.R6", "f3.walEntry.WALEpoch"); e != nil {
		ok := false
		for _, ret := range returnsOf(e) {
			ok = canon(retValue(ret, 0)) == "$0.Message.Vote.Instance"
		}
		r.Check(ok, "C12.R6", "walEntry.WALEpoch: epoch = the message's instance", p.c.Pos(e.Pos()), "Message.Vote.Instance", "WAL epoch is not the instance")
	}
	p.walFreshDecode("C12.R6")

	// ---------- R7
	if st := p.fnWith("C12.R7", "f3.gpbftRunner.Start", walPkg+"Purge"); st != nil {
		for _, cs := range callsTo(st, false, walPkg+"Purge") {
			arg := cs.ArgValues()[1]
			l := linOf(arg)
			okForm := len(l.T) == 1 && l.C <= -1
			for s, c := range l.T {
				if c != 1 || !strings.HasSuffix(s, ".GPBFTInstance") {
					okForm = false
				}
			}
			r.Check(okForm, "C12.R7", "Start: WAL purged below finalized instance − k (k ≥ 1)", p.c.InstrPos(cs.Instr), l.String(), "purge bound is "+l.String())
			var fails []string
			noWrap(arg, hypsAt(cs.Instr.Block()), map[ssa.Value]bool{}, &fails)
			r.Check(len(fails) == 0, "C12.R7", "Start: purge bound computed without unsigned wrap-around", p.c.InstrPos(cs.Instr), "subtraction dominated by instance > k", strings.Join(fails, "; ")+" — for early instances the bound wraps to ~2^64 and every closed WAL file is deleted")
		}
	}
}
