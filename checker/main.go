// f3lint — repository-specific static checker for go-f3 properties C01..C20.
// Nothing under analysis is executed: the program is type-checked, lowered to
// SSA and interrogated by rules written for this code base.
package main

import (
	"flag"
	"fmt"
	"os"
	"runtime/debug"
	"sort"
	"strings"

	"golang.org/x/tools/go/ssa"
)

type propFunc func(p *P)

var registry = map[string]propFunc{}

func register(id string, f propFunc) { registry[id] = f }

func main() {
	prop := flag.String("prop", "", "property id (C01..C20)")
	tier := flag.String("tier", "quick", "quick|thorough")
	repo := flag.String("repo", "/repo", "repository root")
	verif := flag.String("verif", "/verif", "verif root (evidence, known findings)")
	only := flag.String("only", "", "replay: only report the obligation with this rule|construct key")
	dump := flag.String("dump", "", "debug: dump canonical SSA of the named function")
	list := flag.Bool("list", false, "list anchors")
	noEvidence := flag.Bool("selftest-child", false, "internal: run against a scratch copy, print verdict lines only")
	flag.Parse()

	if *dump != "" || *list {
		c, err := Load(*repo, *tier, false)
		if err != nil {
			fmt.Println(err)
			os.Exit(2)
		}
		if *list {
			for _, f := range c.Funcs {
				fmt.Println(funcName(f))
			}
			return
		}
		if os.Getenv("F3LINT_DUMP_INLINE") != "" {
			theCtx = c
			for _, m := range strings.Split(os.Getenv("F3LINT_DUMP_INLINE"), ",") {
				mention(m)
			}
			inlineOn = true
			computeHelpers(c)
			for _, f := range c.Funcs {
				if funcName(f) == *dump {
					vf := vfuncOf(f)
					for _, n := range vf.Nodes {
						fmt.Printf(" n%d [%s b%d] ->", n.Idx, funcName(n.Fn), n.Block.Index)
						for _, su := range n.Succs {
							fmt.Printf(" n%d", su.Idx)
						}
						fmt.Println()
						for _, in := range n.Instrs {
							switch x := in.(type) {
							case ssa.Value:
								fmt.Printf("    %-6s = %s\n", x.Name(), canon(x))
							case *ssa.Store:
								fmt.Printf("    store %s <- %s\n", canon(x.Addr), canon(x.Val))
							case *ssa.If:
								fmt.Printf("    if %s\n", canon(x.Cond))
							default:
								fmt.Printf("    %T\n", in)
							}
						}
					}
				}
			}
			return
		}
		dumpFn(c, *dump)
		return
	}
	if strings.Contains(*prop, ",") && *noEvidence {
		os.Exit(multiChild(strings.Split(*prop, ","), *repo, *tier))
	}
	f, ok := registry[*prop]
	if !ok {
		fmt.Printf("unknown property %q\n", *prop)
		os.Exit(2)
	}
	rep := NewReport(*prop, *tier)
	code := func() (code int) {
		defer func() {
			if e := recover(); e != nil {
				fmt.Printf("checker panic: %v\n%s\n", e, debug.Stack())
				rep.Undecided(*prop+".R0", "checker", fmt.Sprintf("checker panicked: %v", e))
				if *noEvidence {
					// a run on a scratch copy never touches /verif/evidence
					code = childFinish(rep)
					return
				}
				code = rep.Finish(*verif, "")
				if code == 0 {
					code = 1
				}
			}
		}()
		c, err := Load(*repo, *tier, *tier == "thorough")
		if err != nil {
			rep.Undecided(*prop+".R0", "load", err.Error())
			if *noEvidence {
				// a run on a scratch copy never touches /verif/evidence
				return childFinish(rep)
			}
			return rep.Finish(*verif, "")
		}
		rep.Analysed.Packages = c.NPkgs
		for _, fn := range c.Funcs {
			rep.Analysed.Functions++
			rep.Analysed.Blocks += len(fn.Blocks)
			rep.Analysed.CallSites += len(callSites(fn, false))
		}
		// pass 1 (discovery): run the rules once to learn which functions they anchor on;
		// pass 2: with every other single-call-site private helper spliced into its caller.
		theCtx = c
		inlineOn = false
		computeHelpers(c)
		f(&P{c: c, r: NewReport(*prop, *tier)})
		inlineOn = os.Getenv("F3LINT_NOINLINE") == ""
		computeHelpers(c)
		p := &P{c: c, r: rep}
		f(p)
		rep.Notes = append(rep.Notes, fmt.Sprintf("virtual inlining: %d private helpers spliced into their callers program-wide; %d function names anchored by rules (never inlined)", len(helperSite), len(mentioned)))
		if *noEvidence {
			return childFinish(rep)
		}
		if *tier == "thorough" && *only == "" {
			runSelfTest(p, *verif)
		}
		return rep.Finish(*verif, *only)
	}()
	os.Exit(code)
}

// multiChild runs several properties' rules over one load of a (variant) tree and prints
// the violated/undecided obligations of each; used by the sweep tools only.
func multiChild(props []string, repo, tier string) int {
	c, err := Load(repo, tier, false)
	if err != nil {
		fmt.Printf("CHILD-LOAD-ERROR\t%v\n", err)
		return 3
	}
	rc := 0
	for _, id := range props {
		f, ok := registry[id]
		if !ok {
			continue
		}
		func() {
			rep := NewReport(id, tier)
			defer func() {
				if e := recover(); e != nil {
					fmt.Printf("CHILD-REPORT\t%s.R0\tundecided\tchecker panicked: %v\t-\n", id, e)
					rc = 1
				}
			}()
			theCtx = c
			mentioned = map[string]bool{}
			inlineOn = false
			computeHelpers(c)
			f(&P{c: c, r: NewReport(id, tier)})
			inlineOn = true
			computeHelpers(c)
			f(&P{c: c, r: rep})
			if childFinish(rep) != 0 {
				rc = 1
			}
		}()
	}
	return rc
}

// childFinish prints violated/undecided obligations one per line (used by the mutant self-test).
func childFinish(r *Report) int {
	count := map[string]int{}
	for _, o := range r.Obs {
		count[o.Rule]++
	}
	for id, min := range r.Minima {
		if count[id] < min {
			r.Undecided(id, "instance-count", fmt.Sprintf("matched %d < %d", count[id], min))
		}
	}
	n := 0
	for _, o := range r.Obs {
		if o.Verdict == "violated" || o.Verdict == "undecided" {
			fmt.Printf("CHILD-REPORT\t%s\t%s\t%s\t%s\n", o.Rule, o.Verdict, o.Construct, o.Where)
			n++
		}
	}
	if n > 0 {
		return 1
	}
	return 0
}

func dumpFn(c *Ctx, name string) {
	var fns []*ssa.Function
	for _, f := range c.Funcs {
		if funcName(f) == name || strings.HasPrefix(funcName(f), name+"$") {
			fns = append(fns, f)
		}
	}
	sort.Slice(fns, func(i, j int) bool { return funcName(fns[i]) < funcName(fns[j]) })
	for _, f := range fns {
		fmt.Printf("=== %s (%s)\n", funcName(f), c.Pos(f.Pos()))
		for _, b := range f.Blocks {
			var succ []string
			for _, s := range b.Succs {
				succ = append(succ, fmt.Sprint(s.Index))
			}
			fmt.Printf(" b%d -> %s   %s\n", b.Index, strings.Join(succ, ","), b.Comment)
			for _, in := range b.Instrs {
				switch x := in.(type) {
				case ssa.Value:
					fmt.Printf("    %-6s = %s\n", x.Name(), canon(x))
				case *ssa.Store:
					fmt.Printf("    store %s <- %s\n", canon(x.Addr), canon(x.Val))
				case *ssa.If:
					fmt.Printf("    if %s\n", canon(x.Cond))
				case *ssa.Return:
					var rs []string
					for _, r := range x.Results {
						rs = append(rs, canon(r))
					}
					fmt.Printf("    return %s\n", strings.Join(rs, ", "))
				case *ssa.MapUpdate:
					fmt.Printf("    mapupdate %s[%s] = %s\n", canon(x.Map), canon(x.Key), canon(x.Value))
				case ssa.CallInstruction:
					fmt.Printf("    %T %s\n", x, newCanoner(f).call(x.Common(), 0))
				default:
					fmt.Printf("    %T %s\n", in, in.String())
				}
			}
		}
	}
}
