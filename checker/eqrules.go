package main

import (
	"fmt"
	"go/token"
	"go/types"
	"sort"
	"strings"

	"golang.org/x/tools/go/ssa"
)

// Structural equality helpers used by several properties' guards (base linkage,
// supplemental-data and payload comparison, canonical power tables). An equality
// predicate that silently ignores a field weakens every guard built on it.
//
// gEquality decides, for each listed predicate T.Eq(a, b): every field of T is
// compared pairwise between the two operands, and — by constant propagation with
// that one comparison forced to "different" and both operands non-nil — the
// predicate cannot return true.

type eqSpec struct {
	fn     string
	fields []string // every field of the struct (checked against go/types as well)
}

var eqSpecs = []eqSpec{
	{"gpbft.TipSet.Equal", []string{"Epoch", "Key", "PowerTable", "Commitments"}},
	{"gpbft.SupplementalData.Eq", []string{"Commitments", "PowerTable"}},
	{"gpbft.PowerEntry.Equal", []string{"ID", "Power", "PubKey"}},
	{"gpbft.Payload.Eq", []string{"Instance", "Round", "Phase", "SupplementalData", "Value"}},
}

func stripOperand(c string) string {
	c = strings.TrimPrefix(c, "&")
	c = strings.TrimPrefix(c, "*")
	c = strings.TrimSuffix(c, "[:]")
	return c
}

// fieldComparisons: values (comparison BinOps or bool-returning calls) in fn whose two operands are $0.F and $1.F.
func fieldComparisons(fn *ssa.Function, field string) []ssa.Value {
	var out []ssa.Value
	want := map[string]bool{"$0." + field: true, "$1." + field: true}
	match := func(a, b ssa.Value) bool {
		ca, cb := stripOperand(canon(a)), stripOperand(canon(b))
		return ca != cb && want[ca] && want[cb]
	}
	allValues(fn, func(v ssa.Value) {
		switch x := v.(type) {
		case *ssa.BinOp:
			if (x.Op == token.EQL || x.Op == token.NEQ) && match(x.X, x.Y) {
				out = append(out, x)
			}
		case *ssa.Call:
			if x.Call.IsInvoke() {
				return
			}
			if b, ok := x.Type().Underlying().(*types.Basic); !ok || b.Kind() != types.Bool {
				return
			}
			if len(x.Call.Args) == 2 && match(x.Call.Args[0], x.Call.Args[1]) {
				out = append(out, x)
			}
		}
	})
	return out
}

func (p *P) gEquality(rule string) {
	r := p.r
	for _, spec := range eqSpecs {
		fn := p.fn(rule, spec.fn)
		if fn == nil {
			continue
		}
		// the spec's field list must be the struct's field list (a new field must be added to the predicate and to this table)
		if len(fn.Params) > 0 {
			t := fn.Params[0].Type()
			if pt, ok := t.Underlying().(*types.Pointer); ok {
				t = pt.Elem()
			}
			if st, ok := t.Underlying().(*types.Struct); ok {
				var have []string
				for i := 0; i < st.NumFields(); i++ {
					if st.Field(i).Exported() {
						have = append(have, st.Field(i).Name())
					}
				}
				a, b := append([]string{}, have...), append([]string{}, spec.fields...)
				sort.Strings(a)
				sort.Strings(b)
				r.Check(strings.Join(a, ",") == strings.Join(b, ","), rule, spec.fn+": compares the fields the type has", p.c.Pos(fn.Pos()), strings.Join(b, ","), "the type has fields "+strings.Join(a, ",")+" but the rule table lists "+strings.Join(b, ","))
			}
		}
		for _, f := range spec.fields {
			construct := fmt.Sprintf("%s: not equal when %s differs", spec.fn, f)
			cmps := fieldComparisons(fn, f)
			if len(cmps) == 0 {
				r.Fail(rule, construct, p.c.Pos(fn.Pos()), "no comparison of "+f+" between the two operands — values differing only in "+f+" are reported equal")
				continue
			}
			inj := map[ssa.Value]AV{}
			for _, c := range cmps {
				if b, ok := c.(*ssa.BinOp); ok && b.Op == token.NEQ {
					inj[c] = avTrue
				} else {
					inj[c] = avFalse
				}
			}
			for i, prm := range fn.Params {
				if i < 2 && nillable(prm.Type()) {
					inj[prm] = avNonNil
				}
			}
			// two distinct objects (the same object cannot differ from itself)
			if len(fn.Params) >= 2 {
				allValues(fn, func(v ssa.Value) {
					if b, ok := v.(*ssa.BinOp); ok && (b.Op == token.EQL || b.Op == token.NEQ) {
						if (b.X == fn.Params[0] && b.Y == fn.Params[1]) || (b.X == fn.Params[1] && b.Y == fn.Params[0]) {
							inj[v] = avBool(b.Op == token.NEQ)
						}
					}
				})
			}
			s := RunSCCP(fn, inj)
			bad := ""
			for _, ret := range returnsOf(fn) {
				if !s.Reachable(ret) || len(ret.Results) != 1 {
					continue
				}
				if av := s.get(ret.Results[0]); !(av.K == Cst && av.C.String() == "false") {
					bad = fmt.Sprintf("return at %s may yield %s although %s differs", p.c.InstrPos(ret), av, f)
				}
			}
			r.Check(bad == "", rule, construct, p.c.Pos(fn.Pos()), "every reachable return is false under the injected difference", bad)
		}
	}
	// chain equality: same length and every tipset pairwise Equal
	if fn := p.fn(rule, "gpbft.ECChain.Eq"); fn != nil {
		eqs := callSinks(fn, "tipset comparison", "gpbft.TipSet.Equal")
		// idiom: slices.EqualFunc(a.TipSets, b.TipSets, (*TipSet).Equal) — length and pairwise comparison by construction
		viaStd := false
		for _, cs := range callSites(fn, false) {
			if strings.HasPrefix(cs.Callee(), "slices.EqualFunc") && len(cs.Common.Args) == 3 {
				a, b, f := cs.Arg(0), cs.Arg(1), cs.Arg(2)
				if ((a == "$0.TipSets" && b == "$1.TipSets") || (a == "$1.TipSets" && b == "$0.TipSets")) && strings.Contains(f, "gpbft.Equal") {
					viaStd = true
				}
			}
		}
		if viaStd && len(eqs) == 0 {
			r.OK(rule, "gpbft.ECChain.Eq: every tipset is compared", p.c.Pos(fn.Pos()), "slices.EqualFunc over both tipset slices with TipSet.Equal")
		} else if len(eqs) == 0 {
			r.Fail(rule, "gpbft.ECChain.Eq: tipsets compared pairwise", p.c.Pos(fn.Pos()), "no TipSet.Equal call")
		} else {
			p.fullRangeLoop(rule, "gpbft.ECChain.Eq: every tipset is compared", eqs[0].Instr, func(c string) bool { return strings.Contains(c, "TipSet.Equal(") })
			for _, cs := range callsTo(fn, false, "gpbft.TipSet.Equal") {
				a, b := cs.Arg(0), cs.Arg(1)
				ok := (strings.HasPrefix(a, "$0.TipSets[") && strings.HasPrefix(b, "$1.TipSets[") || strings.HasPrefix(a, "$1.TipSets[") && strings.HasPrefix(b, "$0.TipSets[")) && a[2:] == b[2:]
				r.Check(ok, rule, "gpbft.ECChain.Eq: compares tipsets at the same index of the two chains", p.c.InstrPos(cs.Instr), a+" vs "+b, "compares "+a+" with "+b)
			}
			p.guardedAfter(rule, fn, constReturns(fn, 0, "true"), callResult("tipsets equal", "gpbft.TipSet.Equal", "", -1, avFalse))
			p.guarded(rule, fn, constReturns(fn, 0, "true"), cmpRel("same length", `ECChain\.Len\(\$0\)|len\(\$0\.TipSets\)`, `ECChain\.Len\(\$1\)|len\(\$1\.TipSets\)`, RelNE))
		}
	}
}
