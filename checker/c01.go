package main

import "golang.org/x/tools/go/ssa"

func init() {
	register("C01", c01)
	register("C02", c02)
	register("C03", c03)
	register("C07", c07)
}

func c01(p *P) {
	r := p.r
	r.Explanation = "Static necessary conditions of agreement, each decided on every path / call site / table row of gpbft: (R1) one vote per sender per tally — power is added only past the not-seen edge of the sender check, for that sender; (R2) a decision is entered only from a strong COMMIT quorum for a non-bottom value (in that round) or a validated DECIDE, termination only from a strong DECIDE quorum; (R3) COMMIT for the proposal only with a strong PREPARE quorum or a PREPARE justification — the complete PREPARE-exit table (256 rows) and the justification selection of beginCommit; (R4) the CONVERGE filter's table: candidate ∨ (PREPARE-justified ∧ possibly decided with ⅓ slack); (R5) only validated messages reach the state machine and they are checked (instance, supplemental data, base) before any tally is touched; (R6) the quorum threshold is exactly ⌈2/3⌉ with operands from one table (shared with C08); (R7) validator cache/justification rules (shared with C05)."
	r.NotDecided = "agreement itself over all schedules × adversaries (a global invariant of the distributed protocol); the sway reasoning of FIP-0086."
	r.Assumptions = []string{"AS2: signatures are sound", "AS6: go/types, go/ssa and the rule tables are correct"}
	r.Rule("C01.R1", "one vote per sender per tally", 14)
	r.Rule("C01.R2", "decide only on strong COMMIT quorum / valid DECIDE; terminate only on strong DECIDE quorum", 16)
	r.Rule("C01.R3", "COMMIT for a value needs PREPARE evidence (exit table + justification selection)", 12)
	r.Rule("C01.R4", "CONVERGE filter table", 6)
	r.Rule("C01.R5", "messages checked before any tally is touched; only validated messages are received", 20)
	p.gOneVote("C01.R1")
	p.gDecidePaths("C01.R2")
	p.gPrepareExit("C01.R3")
	p.gCommitJustification("C01.R3")
	p.gConvergeFilter("C01.R4")
	p.gReceiveGuards("C01.R5")
	p.gValidatedOnly("C01.R5")
	p.gEquality("C01.R5")
	p.include(c12, map[string]string{"C12.R1": "C01.R8", "C12.R4": "C01.R8b"}, map[string]string{"C01.R8": "an honest node never sends two different votes for a slot: filter ≺ WAL ≺ publish", "C01.R8b": "the filter is re-armed from the WAL on restart"})
	p.include(c08, map[string]string{"C08.R1": "C01.R6", "C08.R2": "C01.R6b", "C08.R3": "C01.R6c", "C08.R4": "C01.R6d"}, map[string]string{"C01.R6": "strong-quorum threshold exact", "C01.R6b": "quorum operands from one table", "C01.R6c": "single threshold", "C01.R6d": "vote weights: exact scaling of the power table"})
	p.include(c05, map[string]string{"C05.R4": "C01.R7", "C05.R5": "C01.R7b", "C05.R6": "C01.R7c", "C05.R2": "C01.R7d", "C05.R1": "C01.R7e", "C05.R9": "C01.R7f", "C05.R8": "C01.R7g"}, map[string]string{"C01.R7g": "validation-cache structures: lookups are read-only", "C01.R7": "justification validation", "C01.R7b": "justification signature", "C01.R7c": "validation cache cannot vouch for a different value", "C01.R7d": "per-phase validity table", "C01.R7e": "message accepted only past every check (sender, power, signature, justification)", "C01.R7f": "committee cache"})
}

func c02(p *P) {
	r := p.r
	r.Explanation = "Static necessary conditions of validity: (R1) a message with a foreign instance, supplemental data or base never touches a tally; (R2) every writer of the proposal and where its value comes from (own input prefix with quorum, filtered CONVERGE winner, a COMMITted value, a validated DECIDE value, a PREPARE-justified skip); (R3) the candidate set only grows through QUALITY quorums, the CONVERGE filter, COMMIT sways and PREPARE-justified skips; the CONVERGE filter table; (R4) bottom is never decided (tryCommit guard, certificate construction, validator phase table); (R5) the host's chain is non-empty, truncated and validated before the instance is created; (R6) shared validator rules."
	r.NotDecided = "\"prefix of an honest input\" under adversaries and the synchrony clause (behaviour over executions)."
	r.Assumptions = []string{"AS2: signatures are sound", "AS6: go/types, go/ssa and the rule tables are correct"}
	r.Rule("C02.R1", "foreign-base / wrong-instance messages dropped before touching state", 20)
	r.Rule("C02.R2", "proposal writers and sources; candidate growth", 25)
	r.Rule("C02.R3", "CONVERGE filter table", 6)
	r.Rule("C02.R4", "bottom never decided", 10)
	r.Rule("C02.R5", "host chain truncated and validated before use", 8)
	p.gReceiveGuards("C02.R1")
	p.gEquality("C02.R1")
	p.gProposalProvenance("C02.R2")
	p.gCandidatePrefixes("C02.R2")
	p.gConvergeFilter("C02.R3")
	p.gDecidePaths("C02.R4")
	p.gBeginInstance("C02.R5")
	p.include(c05, map[string]string{"C05.R2": "C02.R6", "C05.R4": "C02.R6b", "C05.R6": "C02.R6c", "C05.R1": "C02.R6d", "C05.R5": "C02.R6e", "C05.R8": "C02.R6f"}, map[string]string{"C02.R6f": "validation-cache structures: lookups are read-only", "C02.R6": "bottom invalid for QUALITY/CONVERGE/DECIDE", "C02.R6b": "justification validation", "C02.R6c": "validation cache cannot vouch for a different value", "C02.R6d": "message accepted only past every check", "C02.R6e": "justification signature"})
	p.include(c08, map[string]string{"C08.R1": "C02.R7", "C08.R4": "C02.R7b"}, map[string]string{"C02.R7": "strong-quorum threshold exact", "C02.R7b": "vote weights: exact scaling of the power table"})
}

func c03(p *P) {
	r := p.r
	r.Explanation = "Static necessary conditions of self-contained decision proofs: (R1) at each buildJustification site the quorum aggregated is the strong quorum of the tally of the claimed phase and round for the key of the claimed value; (R2) DECIDE is always round 0; (R3) the justification's fields bind instance, round, phase, value, supplemental data, the quorum's signers and the aggregate of its signatures, and none is produced when aggregation fails; (R4) FindStrongQuorumFor returns a minimal sorted prefix whose scaled power reaches the threshold of the same table, signatures parallel to signers; (R5) the host builds the certificate from the decision and diff(committee(i), committee(i+1)), validates it against its own table and only then stores it; NewFinalityCertificate copies all fields and rejects non-DECIDE / round≠0 / bottom; (R6) shared: the validation cache is read-only on lookup and written only after all checks (a forged message cannot enter the DECIDE tally on resubmission)."
	r.NotDecided = "that the aggregate verifies (cryptography); non-zero power of each listed signer follows from the validator's sender rule and is argued, not re-checked here."
	r.Assumptions = []string{"AS2: signatures are sound", "AS6: go/types, go/ssa and the rule tables are correct"}
	r.Rule("C03.R1", "aggregated quorum = claimed (phase, round, value)", 8)
	r.Rule("C03.R2", "DECIDE votes and justification use round 0; emission discipline", 20)
	r.Rule("C03.R3", "justification fields; no justification on aggregation failure", 9)
	r.Rule("C03.R4", "minimal strong quorum, signers/signatures parallel", 7)
	r.Rule("C03.R5", "certificate built, self-validated, then stored", 14)
	p.gJustificationSites("C03.R1")
	p.gBroadcastDiscipline("C03.R2")
	p.gJustificationFields("C03.R3")
	p.gMinimalQuorum("C03.R4")
	p.gSaveDecision("C03.R5")
	p.gCommitteeAggregateKeys("C03.R5")
	p.gDecidePaths("C03.R5b")
	r.Rule("C03.R5b", "termination only from a strong DECIDE quorum with the justification just built", 16)
	p.include(c05, map[string]string{"C05.R6": "C03.R6", "C05.R1": "C03.R6b", "C05.R8": "C03.R6c"}, map[string]string{"C03.R6c": "validation-cache structures: lookups are read-only", "C03.R6": "validation cache read-only on lookup, written after all checks", "C03.R6b": "message accept gated by all checks"})
	p.include(c08, map[string]string{"C08.R1": "C03.R7", "C08.R4": "C03.R7b"}, map[string]string{"C03.R7": "strong-quorum threshold exact", "C03.R7b": "scaled power (zero-power members) computed exactly"})
	p.include(c04, map[string]string{"C04.R2": "C03.R8", "C04.R1": "C03.R8b"}, map[string]string{"C03.R8": "certificate validation checks the signature the way the decision was built (whole table's key set, DECIDE payload, same threshold)", "C03.R8b": "certificate validation gates"})
}

func c07(p *P) {
	r := p.r
	r.Explanation = "Static necessary conditions of protocol discipline in what a participant emits: (R1) only the seven transition functions move the phase, each to its own constant, each reachable only from its predecessor phase (dispatch table of tryCurrentPhase, guards of try*/shouldSkipToRound/receiveOne), rounds only increase; (R2) each transition broadcasts exactly once, after storing the phase and notifying progress, its own phase at the right round, arms its alarm; RequestBroadcast only from broadcast(); (R3) emitted shapes (value, ticket, justification nil-ness) match what the validator accepts; a participant with zero scaled power emits nothing; (R4) round-0 PREPARE value = longest input prefix with a strong QUALITY quorum; (R5) the PREPARE-exit (256 rows) and COMMIT-handling (512 rows) decision tables equal the specification; COMMIT justification selection; (R6) every quorum-backed prefix of the proposal becomes a candidate; sways only with PREPARE-quorum proof; CONVERGE filter; (R7) exported entry points convert panics into errors."
	r.NotDecided = "\"acceptable to its peers\" beyond message shape; absence of internal errors on all schedules (only containment); one-message-per-(round,step) across re-entries is enforced at run time by the equivocation filter (C12)."
	r.Assumptions = []string{"AS4: a DECIDE message has round 0, so the post-termination skip path in postReceive is infeasible", "AS6: go/types, go/ssa and the rule tables are correct"}
	r.Rule("C07.R1", "phase writers, predecessor guards, rounds increase", 60)
	r.Rule("C07.R2", "one broadcast per transition, ordered after phase store and progress notification; alarms", 45)
	r.Rule("C07.R3", "no power ⇒ no message; message fields", 8)
	r.Rule("C07.R4", "round-0 PREPARE value and proposal provenance", 25)
	r.Rule("C07.R5", "PREPARE exit and COMMIT handling tables; COMMIT justification", 14)
	r.Rule("C07.R6", "all quorum-backed prefixes become candidates; CONVERGE filter", 8)
	r.Rule("C07.R7", "panic containment at the API boundary", 7)
	p.gPhaseWriters("C07.R1")
	p.gBroadcastDiscipline("C07.R2")
	p.gNoPowerNoMessage("C07.R3")
	p.gProposalProvenance("C07.R4")
	p.gPrepareExit("C07.R5")
	p.gCommitTable("C07.R5")
	p.gCommitJustification("C07.R5")
	p.gCandidatePrefixes("C07.R6")
	p.gConvergeFilter("C07.R6")
	p.gPanicContainment("C07.R7")
	p.gDecidePaths("C07.R8")
	r.Rule("C07.R8", "decision paths", 16)
	p.gJustificationSites("C07.R9")
	r.Rule("C07.R9", "justifications aggregate what they claim", 8)
	p.gBeginInstance("C07.R10")
	r.Rule("C07.R10", "instance start: host chain truncated to the maximum, then validated; never an error for a long honest chain", 8)
	p.gReceiveGuards("C07.R11")
	r.Rule("C07.R11", "delivery guards of receiveOne", 20)
	p.gProposalIsCandidate("C07.R6")
	p.gHandleDecisionAlarm("C07.R14")
	r.Rule("C07.R14", "after a decision the host alarm is always re-programmed (no stale alarm re-enters the finished instance)", 1)
	p.include(c12, map[string]string{"C12.R1": "C07.R13", "C12.R4": "C07.R13b", "C12.R5": "C07.R13c"}, map[string]string{"C07.R13": "at most one message per slot on the wire: filter ≺ WAL ≺ publish", "C07.R13b": "the filter is re-armed from the WAL on start", "C07.R13c": "filter table"})
	p.include(c08, map[string]string{"C08.R1": "C07.R12"}, map[string]string{"C07.R12": "strong-quorum threshold exact (\"never commits bottom while holding a strong PREPARE quorum\")"})
}

// gValidatedOnly: only validated messages reach the state machine (type-level + call graph).
func (p *P) gValidatedOnly(rule string) {
	r := p.r
	p.onlyCalledFrom(rule, inst+"Receive", "gpbft.Participant.ReceiveMessage")
	p.onlyCalledFrom(rule, inst+"ReceiveMany", "gpbft.Participant.beginInstance")
	p.onlyCalledFrom(rule, "gpbft.messageQueue.Add", "gpbft.Participant.ReceiveMessage")
	if rm := p.fn(rule, "gpbft.Participant.ReceiveMessage"); rm != nil {
		for _, cs := range callsTo(rm, false, inst+"Receive") {
			r.Check(cs.Arg(1) == "iface:ValidatedMessage.Message($2)", rule, "ReceiveMessage: delivers the message unwrapped from the validated token", p.c.InstrPos(cs.Instr), cs.Arg(1), "delivers "+cs.Arg(1))
		}
		for _, cs := range callsTo(rm, false, "gpbft.messageQueue.Add") {
			r.Check(cs.Arg(1) == "iface:ValidatedMessage.Message($2)", rule, "ReceiveMessage: queues the validated message", p.c.InstrPos(cs.Instr), cs.Arg(1), "queues "+cs.Arg(1))
		}
	}
	// the only production implementation of ValidatedMessage is *validatedMessage, constructed only by the validator
	n := 0
	for _, f := range p.c.ProdFuncs() {
		for _, b := range f.Blocks {
			for _, in := range b.Instrs {
				if mi, ok := in.(interface{ Type() interface{} }); ok {
					_ = mi
				}
			}
		}
		allValues(f, func(v ssa.Value) {
			a, ok := v.(*ssa.Alloc)
			if !ok || shortType(a.Type()) != "*gpbft.validatedMessage" {
				return
			}
			n++
			fnm := funcName(f)
			r.Check(fnm == "gpbft.cachingValidator.ValidateMessage" || fnm == "gpbft.cachingValidator.FullyValidateMessage", rule, "validated-message token constructed in "+fnm, p.c.InstrPos(a), "validator", "a validated-message token is forged outside the validator, in "+fnm)
		})
	}
	if n < 2 {
		r.Undecided(rule, "validated-message tokens", "constructions not found")
	}
	if vm := p.fn(rule, "gpbft.cachingValidator.ValidateMessage"); vm != nil {
		var acc []Sink
		for _, ret := range returnsOf(vm) {
			if canon(retValue(ret, 1)) == "nil" {
				acc = append(acc, Sink{ret, "token issued"})
			}
		}
		p.guarded(rule, vm, acc, errFails("relevance", "gpbft.cachingValidator.validateByProgress", ""), errFails("validation", "gpbft.cachingValidator.validateMessageWithVoteValueKey", ""), paramIs("non-nil message", 2, avNil))
	}
}
