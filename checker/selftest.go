package main

import (
	"bufio"
	"fmt"
	"os"
	"os/exec"
	"path/filepath"
	"sort"
	"strings"
	"sync"
)

// Both-ways self-test (thorough tier): every registered mutant patch under
// /verif/mutants/<prop>/ is applied to a scratch copy of /repo (outside /repo
// and /verif, deleted immediately afterwards); the property's rules are
// re-run on the copy in a fresh process and must report the rule named in the
// patch header ("# rule: C10.R4"). A surviving mutant fails the check.
func runSelfTest(p *P, verif string) {
	dir := filepath.Join(verif, "mutants", p.r.Prop)
	files, _ := filepath.Glob(filepath.Join(dir, "*.patch"))
	sort.Strings(files)
	if len(files) == 0 {
		return
	}
	type job struct {
		file, rule string
	}
	var jobs []job
	for _, f := range files {
		rule := ""
		fh, err := os.Open(f)
		if err != nil {
			continue
		}
		sc := bufio.NewScanner(fh)
		for sc.Scan() {
			l := sc.Text()
			if strings.HasPrefix(l, "# rule:") {
				rule = strings.TrimSpace(strings.TrimPrefix(l, "# rule:"))
				break
			}
			if !strings.HasPrefix(l, "#") {
				break
			}
		}
		fh.Close()
		jobs = append(jobs, job{f, rule})
	}
	results := make([]MutantResult, len(jobs))
	sem := make(chan struct{}, 6)
	var wg sync.WaitGroup
	for i, j := range jobs {
		wg.Add(1)
		go func(i int, j job) {
			defer wg.Done()
			sem <- struct{}{}
			defer func() { <-sem }()
			results[i] = runMutant(p.c.Repo, p.r.Prop, j.file, j.rule)
		}(i, j)
	}
	wg.Wait()
	p.r.Mutants = results
}

func runMutant(repo, prop, patch, rule string) MutantResult {
	name := strings.TrimSuffix(filepath.Base(patch), ".patch")
	res := MutantResult{Name: name, Rule: rule}
	scratch, err := os.MkdirTemp("", "f3lint-mut-")
	if err != nil {
		res.By = "mktemp: " + err.Error()
		return res
	}
	defer os.RemoveAll(scratch)
	if out, err := exec.Command("rsync", "-a", "--exclude", ".git", repo+"/", scratch+"/").CombinedOutput(); err != nil {
		res.By = "rsync: " + string(out)
		return res
	}
	cmd := exec.Command("patch", "-p1", "-s", "-i", patch)
	cmd.Dir = scratch
	if out, err := cmd.CombinedOutput(); err != nil {
		res.By = "patch does not apply (mutant is stale): " + strings.TrimSpace(string(out))
		return res
	}
	child := exec.Command(os.Args[0], "-prop", prop, "-tier", "quick", "-repo", scratch, "-selftest-child")
	out, _ := child.CombinedOutput()
	var reported []string
	for _, l := range strings.Split(string(out), "\n") {
		if strings.HasPrefix(l, "CHILD-REPORT\t") {
			f := strings.Split(l, "\t")
			if len(f) >= 4 {
				reported = append(reported, f[1]+":"+f[3])
				if f[1] == rule || rule == "" {
					res.Killed = true
				}
			}
		}
	}
	if len(reported) == 0 {
		tail := string(out)
		if len(tail) > 300 {
			tail = tail[len(tail)-300:]
		}
		res.By = "nothing reported; child output tail: " + tail
	} else {
		if len(reported) > 4 {
			reported = reported[:4]
		}
		res.By = strings.Join(reported, "; ")
	}
	if !res.Killed && len(reported) > 0 {
		res.By = fmt.Sprintf("expected rule %s, got only: %s", rule, res.By)
	}
	return res
}
