package main

import (
	"fmt"
	"go/constant"
	"go/token"
	"go/types"
	"sort"
	"strings"

	"golang.org/x/tools/go/ssa"
)

// Linear forms over ℤ: Σ cᵢ·sᵢ + c, where symbols sᵢ are canonical SSA
// expressions that are not themselves +,−,·const (field loads, parameters,
// call results, phis, quotients …). Integer width is ignored in the form; the
// no-wrap side conditions are separate obligations (proveNoWrap).
type Lin struct {
	C int64
	T map[string]int64
}

var symNonNeg = map[string]bool{} // symbol -> known ≥ 0 (unsigned type or len())

func (l Lin) clone() Lin {
	n := Lin{C: l.C, T: map[string]int64{}}
	for k, v := range l.T {
		n.T[k] = v
	}
	return n
}

func (l Lin) add(o Lin, k int64) Lin {
	n := l.clone()
	n.C += k * o.C
	for s, c := range o.T {
		n.T[s] += k * c
		if n.T[s] == 0 {
			delete(n.T, s)
		}
	}
	return n
}

func (l Lin) scale(k int64) Lin { return Lin{T: map[string]int64{}}.add(l, k) }

func (l Lin) String() string {
	var ks []string
	for k := range l.T {
		ks = append(ks, k)
	}
	sort.Strings(ks)
	var parts []string
	for _, k := range ks {
		parts = append(parts, fmt.Sprintf("%+d·%s", l.T[k], k))
	}
	parts = append(parts, fmt.Sprintf("%+d", l.C))
	return strings.Join(parts, " ")
}

func (l Lin) equal(o Lin) bool {
	d := l.add(o, -1)
	return d.C == 0 && len(d.T) == 0
}

func isUnsigned(t types.Type) bool {
	b, ok := t.Underlying().(*types.Basic)
	return ok && b.Info()&types.IsUnsigned != 0
}

func isInteger(t types.Type) bool {
	b, ok := t.Underlying().(*types.Basic)
	return ok && b.Info()&types.IsInteger != 0
}

func linSym(v ssa.Value) Lin {
	s := canon(v)
	if isUnsigned(v.Type()) {
		symNonNeg[s] = true
	}
	if c, ok := v.(*ssa.Call); ok {
		if b, ok := c.Call.Value.(*ssa.Builtin); ok && (b.Name() == "len" || b.Name() == "cap") {
			symNonNeg[s] = true
		}
	}
	return Lin{T: map[string]int64{s: 1}}
}

// linOf normalises an integer SSA value.
func linOf(v ssa.Value) Lin { return linOfS(v, map[ssa.Value]bool{}) }

// linSubst: while a Case with a min/max choice is evaluated, the chosen argument stands for the call.
var linSubst map[ssa.Value]ssa.Value

func linOfS(v ssa.Value, seen map[ssa.Value]bool) Lin {
	linOf := func(v ssa.Value) Lin { return linOfS(v, seen) }
	if r, ok := linSubst[v]; ok && r != v {
		return linOf(r)
	}
	switch x := v.(type) {
	case *ssa.Parameter:
		if site := helperSite[x.Parent()]; site != nil {
			for i, pr := range x.Parent().Params {
				if pr == x && i < len(site.Call.Args) {
					return linOf(site.Call.Args[i])
				}
			}
		}
	case *ssa.Call:
		if h := isInlined(x); h != nil && h.Signature.Results().Len() == 1 {
			vf := vfuncOf(h)
			if rs := vf.rets[h]; len(rs) == 1 {
				return linOf(rs[0].Results[0])
			}
		}
	case *ssa.Const:
		if x.Value != nil && x.Value.Kind() == constant.Int {
			if i, ok := constant.Int64Val(x.Value); ok {
				return Lin{C: i, T: map[string]int64{}}
			}
		}
	case *ssa.BinOp:
		switch x.Op {
		case token.ADD:
			return linOf(x.X).add(linOf(x.Y), 1)
		case token.SUB:
			return linOf(x.X).add(linOf(x.Y), -1)
		case token.MUL:
			a, b := linOf(x.X), linOf(x.Y)
			if len(a.T) == 0 {
				return b.scale(a.C)
			}
			if len(b.T) == 0 {
				return a.scale(b.C)
			}
		}
	case *ssa.Convert:
		if isInteger(x.Type()) && isInteger(x.X.Type()) {
			// same signedness or widening-from-unsigned keeps the value
			if isUnsigned(x.Type()) == isUnsigned(x.X.Type()) || isUnsigned(x.X.Type()) {
				return linOf(x.X)
			}
		}
	case *ssa.ChangeType:
		return linOf(x.X)
	case *ssa.Phi:
		// a phi all of whose edges have the same form
		if seen[x] {
			return linSym(v)
		}
		seen[x] = true
		defer delete(seen, x)
		var first *Lin
		same := true
		for _, e := range x.Edges {
			if e == x {
				continue
			}
			l := linOf(e)
			if first == nil {
				first = &l
			} else if !first.equal(l) {
				same = false
			}
		}
		if same && first != nil {
			return *first
		}
	}
	return linSym(v)
}

// A hypothesis is a linear form known to be ≤ 0.
type Hyp struct {
	L    Lin
	Desc string
}

// cmpHyps turns an integer comparison (taken with the given polarity) into ≤0 forms.
func cmpHyps(cond ssa.Value, polarity bool) []Hyp {
	switch x := cond.(type) {
	case *ssa.UnOp:
		if x.Op == token.NOT {
			return cmpHyps(x.X, !polarity)
		}
	case *ssa.BinOp:
		if !isInteger(x.X.Type()) {
			return nil
		}
		a, b := linOf(x.X), linOf(x.Y)
		op := x.Op
		if !polarity {
			switch op {
			case token.LSS:
				op = token.GEQ
			case token.LEQ:
				op = token.GTR
			case token.GTR:
				op = token.LEQ
			case token.GEQ:
				op = token.LSS
			case token.EQL:
				op = token.NEQ
			case token.NEQ:
				op = token.EQL
			}
		}
		d := fmt.Sprintf("%s %s %s", canon(x.X), op, canon(x.Y))
		one := Lin{C: 1, T: map[string]int64{}}
		switch op {
		case token.LSS: // a < b  ⇒ a-b+1 ≤ 0
			return []Hyp{{a.add(b, -1).add(one, 1), d}}
		case token.LEQ:
			return []Hyp{{a.add(b, -1), d}}
		case token.GTR:
			return []Hyp{{b.add(a, -1).add(one, 1), d}}
		case token.GEQ:
			return []Hyp{{b.add(a, -1), d}}
		case token.EQL:
			return []Hyp{{a.add(b, -1), d}, {b.add(a, -1), d}}
		case token.NEQ:
			// x != 0 on unsigned ⇒ x ≥ 1
			if len(b.T) == 0 && b.C == 0 && isUnsigned(x.X.Type()) {
				return []Hyp{{one.add(a, -1), d}}
			}
		}
	}
	return nil
}

// hypsAt collects the comparisons that hold on entry to block b (on the spliced
// CFG: for a block of a helper this includes the conditions dominating its call site).
func hypsAt(b *ssa.BasicBlock) []Hyp {
	vf := vfuncOf(b.Parent())
	return hypsAtNode(vf.first[b])
}

func hypsAtNode(n *VNode) []Hyp {
	var out []Hyp
	for cur := n; cur != nil; cur = cur.Idom() {
		if len(cur.Preds) != 1 {
			continue
		}
		p := cur.Preds[0]
		if len(p.Instrs) == 0 || len(p.Succs) != 2 {
			continue
		}
		iff, ok := p.Instrs[len(p.Instrs)-1].(*ssa.If)
		if !ok || p.Succs[0] == p.Succs[1] {
			continue
		}
		if !wrapFreeNode(iff.Cond, p) {
			continue // the comparison is over a possibly wrapped value: it says nothing about the ideal integers
		}
		out = append(out, cmpHyps(iff.Cond, p.Succs[0] == cur)...)
	}
	return out
}

// wrapFree: every unsigned subtraction inside the comparison's operands is
// shown non-wrapping by comparisons that dominate the comparison itself.
func wrapFree(cond ssa.Value, at *ssa.BasicBlock) bool {
	vf := vfuncOf(at.Parent())
	return wrapFreeNode(cond, vf.last[at])
}

func wrapFreeNode(cond ssa.Value, at *VNode) bool {
	var subs []*ssa.BinOp
	seen := map[ssa.Value]bool{}
	var walk func(v ssa.Value, d int)
	walk = func(v ssa.Value, d int) {
		if v == nil || seen[v] || d > 8 {
			return
		}
		seen[v] = true
		switch x := v.(type) {
		case *ssa.BinOp:
			if x.Op == token.SUB && isUnsigned(x.Type()) {
				subs = append(subs, x)
			}
			walk(x.X, d+1)
			walk(x.Y, d+1)
		case *ssa.UnOp:
			if x.Op == token.NOT {
				walk(x.X, d+1)
			}
		case *ssa.Convert:
			walk(x.X, d+1)
		}
	}
	walk(cond, 0)
	if len(subs) == 0 {
		return true
	}
	hyps := hypsAtNode(at)
	for _, sb := range subs {
		// lemma: x − (x % m) never wraps (x % m ≤ x for unsigned x)
		if rem, ok := sb.Y.(*ssa.BinOp); ok && rem.Op == token.REM && (rem.X == sb.X || canon(rem.X) == canon(sb.X)) {
			continue
		}
		if ok, _ := entails(hyps, linOf(sb.Y).add(linOf(sb.X), -1)); !ok {
			return false
		}
	}
	return true
}

// edgeHyps: the comparisons that hold when control enters phiBlock from pred #i
// (in addition to the hypotheses at the end of that predecessor).
func edgeHyps(phiBlock *ssa.BasicBlock, i int) []Hyp {
	vf := vfuncOf(phiBlock.Parent())
	p := vf.last[phiBlock.Preds[i]]
	to := vf.first[phiBlock]
	if p == nil || to == nil {
		return nil
	}
	out := hypsAtNode(p)
	if len(p.Instrs) > 0 && len(p.Succs) == 2 {
		if iff, ok := p.Instrs[len(p.Instrs)-1].(*ssa.If); ok && p.Succs[0] != p.Succs[1] && wrapFreeNode(iff.Cond, p) {
			out = append(out, cmpHyps(iff.Cond, p.Succs[0] == to)...)
		}
	}
	return out
}

func nonPos(l Lin) bool {
	if l.C > 0 {
		return false
	}
	for s, c := range l.T {
		if c > 0 {
			return false
		}
		if c < 0 && !symNonNeg[s] {
			return false
		}
	}
	return true
}

// entails: do the hypotheses (each ≤ 0) imply t ≤ 0 ? Sound, incomplete:
// t, t−h, t−h₁−h₂ must be a non-positive combination of non-negative symbols.
func entails(hyps []Hyp, t Lin) (bool, string) {
	if nonPos(t) {
		return true, "trivially (form " + t.String() + ")"
	}
	for _, h := range hyps {
		if nonPos(t.add(h.L, -1)) {
			return true, "from " + h.Desc
		}
	}
	for i, h1 := range hyps {
		for _, h2 := range hyps[i:] {
			if nonPos(t.add(h1.L, -1).add(h2.L, -1)) {
				return true, "from " + h1.Desc + " and " + h2.Desc
			}
		}
	}
	return false, ""
}

// A Case is one value a (possibly phi / min / max) expression can take, with the comparisons known on that path.
type Case struct {
	V     ssa.Value
	Hyps  []Hyp
	Subst map[ssa.Value]ssa.Value // min/max calls inside V → the argument chosen in this case
}

// lin: linear form of v under this case's min/max choices.
func (c Case) lin(v ssa.Value) Lin {
	old := linSubst
	linSubst = c.Subst
	defer func() { linSubst = old }()
	return linOf(v)
}

// minMaxCalls lists the builtin min/max calls inside the arithmetic expression tree of v (innermost first).
func minMaxCalls(v ssa.Value, out *[]*ssa.Call, seen map[ssa.Value]bool, d int) {
	if v == nil || seen[v] || d > 8 {
		return
	}
	seen[v] = true
	switch x := v.(type) {
	case *ssa.BinOp:
		if x.Op == token.ADD || x.Op == token.SUB || x.Op == token.MUL {
			minMaxCalls(x.X, out, seen, d+1)
			minMaxCalls(x.Y, out, seen, d+1)
		}
	case *ssa.Convert:
		minMaxCalls(x.X, out, seen, d+1)
	case *ssa.ChangeType:
		minMaxCalls(x.X, out, seen, d+1)
	case *ssa.Call:
		if b, ok := x.Call.Value.(*ssa.Builtin); ok && (b.Name() == "min" || b.Name() == "max") && len(x.Call.Args) >= 2 && len(x.Call.Args) <= 3 {
			for _, a := range x.Call.Args {
				minMaxCalls(a, out, seen, d+1)
			}
			*out = append(*out, x)
		}
	}
}

// expandMinMax splits a case on the value of every min/max nested inside its expression
// (min(a,b) = a with a ≤ b, or b with b ≤ a; dually for max). At most 16 sub-cases.
func expandMinMax(c Case, top bool) []Case {
	var calls []*ssa.Call
	minMaxCalls(c.V, &calls, map[ssa.Value]bool{}, 0)
	if top {
		// a min/max at the very top is handled by the prover itself (some / all arguments)
		var inner []*ssa.Call
		for _, m := range calls {
			if ssa.Value(m) != c.V {
				inner = append(inner, m)
			}
		}
		calls = inner
	}
	if len(calls) == 0 || len(calls) > 4 {
		return []Case{c}
	}
	out := []Case{c}
	for _, m := range calls {
		var next []Case
		isMin := m.Call.Value.(*ssa.Builtin).Name() == "min"
		for _, cur := range out {
			for i, a := range m.Call.Args {
				sub := map[ssa.Value]ssa.Value{}
				for k, v := range cur.Subst {
					sub[k] = v
				}
				sub[m] = a
				nc := Case{V: cur.V, Hyps: append([]Hyp{}, cur.Hyps...), Subst: sub}
				// dominating comparisons mention the call as an opaque symbol: tie it to the chosen argument
				ls, lc := linSym(m), Case{Subst: cur.Subst}.lin(a)
				nc.Hyps = append(nc.Hyps, Hyp{ls.add(lc, -1), "value of " + canon(m)}, Hyp{lc.add(ls, -1), "value of " + canon(m)})
				for j, b := range m.Call.Args {
					if j == i {
						continue
					}
					la, lb := nc.lin(a), nc.lin(b)
					if isMin {
						nc.Hyps = append(nc.Hyps, Hyp{la.add(lb, -1), "min picks " + canon(a)})
					} else {
						nc.Hyps = append(nc.Hyps, Hyp{lb.add(la, -1), "max picks " + canon(a)})
					}
				}
				next = append(next, nc)
			}
		}
		out = next
		if len(out) > 16 {
			return []Case{c}
		}
	}
	return out
}

// cases expands phis (to the given depth) into their edge values with edge conditions.
func cases(v ssa.Value, base []Hyp, depth int) []Case {
	var out []Case
	for _, c := range casesRaw(v, base, depth) {
		out = append(out, expandMinMax(c, true)...)
	}
	return out
}

func casesRaw(v ssa.Value, base []Hyp, depth int) []Case {
	if pr, ok := v.(*ssa.Parameter); ok && depth > 0 {
		if site := helperSite[pr.Parent()]; site != nil {
			for i, q := range pr.Parent().Params {
				if q == pr && i < len(site.Call.Args) {
					return casesRaw(site.Call.Args[i], base, depth)
				}
			}
		}
	}
	if call, ok := v.(*ssa.Call); ok && depth > 0 {
		if h := isInlined(call); h != nil && h.Signature.Results().Len() == 1 {
			vf := vfuncOf(h)
			var out []Case
			for _, r := range vf.rets[h] {
				hy := append(append([]Hyp{}, base...), hypsAtNode(vf.nodeOf[r])...)
				out = append(out, casesRaw(r.Results[0], hy, depth-1)...)
			}
			if len(out) > 0 {
				return out
			}
		}
	}
	if ph, ok := v.(*ssa.Phi); ok && depth > 0 {
		var out []Case
		for i, e := range ph.Edges {
			if e == ph {
				continue
			}
			h := append(append([]Hyp{}, base...), edgeHyps(ph.Block(), i)...)
			out = append(out, casesRaw(e, h, depth-1)...)
		}
		return out
	}
	return []Case{{V: v, Hyps: base}}
}

// proveLE proves v ≤ bound (+k) on every case of v, in the context of instruction at (dominating hyps).
func proveLE(v ssa.Value, bound Lin, at *ssa.BasicBlock) (bool, string) {
	base := hypsAt(at)
	var why []string
	for _, c := range cases(v, base, 3) {
		ok, w := proveLECase(c, bound)
		if !ok {
			return false, fmt.Sprintf("cannot show %s ≤ %s", canon(c.V), bound.String())
		}
		why = append(why, canon(c.V)+": "+w)
	}
	return true, strings.Join(why, "; ")
}

func proveLECase(c Case, bound Lin) (bool, string) {
	// min(a,b) ≤ bound if some argument is; max(a,b) ≤ bound if all are.
	if call, ok := c.V.(*ssa.Call); ok {
		if b, ok := call.Call.Value.(*ssa.Builtin); ok {
			switch b.Name() {
			case "min":
				for _, a := range call.Call.Args {
					for _, sc := range expandMinMax(Case{V: a, Hyps: c.Hyps, Subst: c.Subst}, true) {
						if ok, w := proveLECase(sc, bound); ok {
							return true, "min arg " + w
						}
					}
				}
				return false, ""
			case "max":
				for _, a := range call.Call.Args {
					if ok, _ := proveLECase(Case{V: a, Hyps: c.Hyps, Subst: c.Subst}, bound); !ok {
						return false, ""
					}
				}
				return true, "all max args"
			}
		}
	}
	return entails(c.Hyps, c.lin(c.V).add(bound, -1))
}

// proveGE proves v ≥ bound on every case.
func proveGE(v ssa.Value, bound Lin, at *ssa.BasicBlock) (bool, string) {
	base := hypsAt(at)
	for _, c := range cases(v, base, 3) {
		if call, ok := c.V.(*ssa.Call); ok {
			if b, ok := call.Call.Value.(*ssa.Builtin); ok && b.Name() == "max" {
				found := false
				for _, a := range call.Call.Args {
					if ok, _ := entails(c.Hyps, bound.add(c.lin(a), -1)); ok {
						found = true
					}
				}
				if found {
					continue
				}
				return false, "max: no argument ≥ bound"
			}
		}
		if ok, _ := entails(c.Hyps, bound.add(c.lin(c.V), -1)); !ok {
			return false, fmt.Sprintf("cannot show %s ≥ %s", canon(c.V), bound.String())
		}
	}
	return true, ""
}

// noWrap checks every unsigned subtraction a−b reachable in the expression
// tree of v: a ≥ b must follow from the comparisons dominating it (or the phi edge it flows through).
func noWrap(v ssa.Value, hyps []Hyp, seen map[ssa.Value]bool, fail *[]string) {
	if seen[v] {
		return
	}
	seen[v] = true
	switch x := v.(type) {
	case *ssa.BinOp:
		h := append(append([]Hyp{}, hyps...), hypsAt(x.Block())...)
		if x.Op == token.SUB && isUnsigned(x.Type()) {
			// need y - x ≤ 0, on every case of the operands
			for _, cx := range cases(x.X, h, 2) {
				for _, cy := range cases(x.Y, cx.Hyps, 2) {
					mix := Case{Subst: map[ssa.Value]ssa.Value{}}
					for k, v := range cx.Subst {
						mix.Subst[k] = v
					}
					for k, v := range cy.Subst {
						mix.Subst[k] = v
					}
					if ok, _ := entails(cy.Hyps, mix.lin(cy.V).add(mix.lin(cx.V), -1)); !ok {
						*fail = append(*fail, fmt.Sprintf("unsigned subtraction %s may wrap (cannot show %s ≥ %s)", canon(x), canon(cx.V), canon(cy.V)))
					}
				}
			}
		}
		if x.Op == token.ADD && isUnsigned(x.Type()) {
			// a+b must be bounded by some symbol known to dominate it: a+b ≤ Y for a hypothesis symbol Y, or an operand constant ≤ small and … (we only accept the hypothesis form)
			// under every min/max choice inside the sum: a+b ≤ Y for a symbol Y of a hypothesis or of the sum's own operands
			ok := true
			for _, sc := range expandMinMax(Case{V: x, Hyps: h}, false) {
				sum := sc.lin(x)
				okCase := false
				syms := map[string]bool{}
				for _, hy := range sc.Hyps {
					for s := range hy.L.T {
						syms[s] = true
					}
				}
				for s := range syms {
					t := sum.add(Lin{T: map[string]int64{s: 1}}, -1)
					if e, _ := entails(sc.Hyps, t); e {
						okCase = true
					}
				}
				if !okCase {
					ok = false
				}
			}
			// x + small constant where x < something is covered above; a bare "+1" on an instance counter is accepted (cannot reach 2^64 in practice) only when one operand is a constant ≤ 1
			if !ok {
				if c, isC := x.Y.(*ssa.Const); isC && c.Value != nil {
					if i, _ := constant.Int64Val(c.Value); i >= 0 && i <= 1 {
						ok = true
					}
				}
			}
			if !ok {
				*fail = append(*fail, fmt.Sprintf("unsigned addition %s is not bounded by any dominating comparison (may wrap)", canon(x)))
			}
		}
		noWrap(x.X, h, seen, fail)
		noWrap(x.Y, h, seen, fail)
	case *ssa.Phi:
		for i, e := range x.Edges {
			noWrap(e, append(append([]Hyp{}, hyps...), edgeHyps(x.Block(), i)...), seen, fail)
		}
	case *ssa.Convert:
		noWrap(x.X, hyps, seen, fail)
	case *ssa.Call:
		if b, ok := x.Call.Value.(*ssa.Builtin); ok && (b.Name() == "min" || b.Name() == "max") {
			for _, a := range x.Call.Args {
				noWrap(a, hyps, seen, fail)
			}
		}
	}
}

// cmpUnder decides every integer comparison of fn whose operands are linear in
// the symbols named by assign (matched by canonical-suffix), under that
// assignment of concrete representatives. Used to evaluate decision tables by
// class representatives without depending on how a comparison is spelled
// (a >= b, !(a < b), b <= a, a+1 == b …).
func cmpUnder(fn *ssa.Function, assign map[string]int64) map[ssa.Value]AV {
	out := map[ssa.Value]AV{}
	value := func(l Lin) (int64, bool) {
		v := l.C
		for s, c := range l.T {
			found := false
			for suf, x := range assign {
				if s == suf || strings.HasSuffix(s, suf) {
					v += c * x
					found = true
					break
				}
			}
			if !found {
				return 0, false
			}
		}
		return v, true
	}
	for _, in := range instrsOf(fn) {
		b, ok := in.(*ssa.BinOp)
		if !ok || !isInteger(b.X.Type()) {
			continue
		}
		switch b.Op {
		case token.EQL, token.NEQ, token.LSS, token.LEQ, token.GTR, token.GEQ:
		default:
			continue
		}
		x, okx := value(linOf(b.X))
		y, oky := value(linOf(b.Y))
		if !okx || !oky {
			continue
		}
		var res bool
		switch b.Op {
		case token.EQL:
			res = x == y
		case token.NEQ:
			res = x != y
		case token.LSS:
			res = x < y
		case token.LEQ:
			res = x <= y
		case token.GTR:
			res = x > y
		case token.GEQ:
			res = x >= y
		}
		out[b] = avBool(res)
	}
	return out
}
