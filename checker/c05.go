package main

import (
	"fmt"
	"sort"
	"strings"

	"golang.org/x/tools/go/ssa"
)

func init() { register("C05", c05) }

func (p *P) phase(name string) int64 { return p.constValue("gpbft", name) }

func (p *P) phaseStr(name string) string { return fmt.Sprintf("%d:Phase", p.phase(name)) }

// classifyJustKey classifies the *ECChainKey / *ECChain value a justification table entry expects.
func classifyJustKey(v ssa.Value) string {
	switch x := v.(type) {
	case *ssa.Alloc:
		if isFreshZero(x) {
			return "zero"
		}
		if vals := storesTo(x); len(vals) == 1 {
			sv := vals[0]
			c := canon(sv)
			if strings.HasPrefix(c, "gpbft.ECChain.Key(") {
				if call, ok := sv.(*ssa.Call); ok && len(call.Call.Args) == 1 && isFreshZero(call.Call.Args[0]) {
					return "zero"
				}
				if strings.HasSuffix(c, ".Vote.Value)") && !strings.Contains(c, "Justification") {
					return "msg"
				}
			}
		}
	case *ssa.Phi:
		// valueKey parameter (partial) or the key of the message's own value (full)
		kinds := map[string]bool{}
		for _, e := range x.Edges {
			if _, ok := e.(*ssa.Parameter); ok {
				kinds["msg"] = true
			} else {
				kinds[classifyJustKey(e)] = true
			}
		}
		if len(kinds) == 1 && kinds["msg"] {
			return "msg"
		}
	case *ssa.UnOp:
		c := canon(x)
		if strings.HasSuffix(c, ".Vote.Value") && !strings.Contains(c, "Justification") {
			return "msg"
		}
	}
	return "unknown:" + canon(v)
}

func classifyJustRound(v ssa.Value) string {
	c := canon(v)
	switch {
	case strings.HasSuffix(c, ".Vote.Round - 1)") && !strings.Contains(c, "Justification"):
		return "r-1"
	case strings.HasSuffix(c, ".Vote.Round") && !strings.Contains(c, "Justification"):
		return "r"
	case c == "18446744073709551615":
		return "any"
	}
	return "unknown:" + c
}

// sliceOfStored: v is alloc[:] — returns canon of the single value stored in the alloc.
func sliceOfStored(v ssa.Value) string {
	if sl, ok := v.(*ssa.Slice); ok {
		if a, ok := sl.X.(*ssa.Alloc); ok {
			if vals := storesTo(a); len(vals) == 1 {
				return canon(vals[0])
			}
		}
	}
	return canon(v)
}

// justTable renders a justification expectation table as "msgPhase>justPhase:round/key" rows.
func justTable(entries []MapEntry, withRound bool) []string {
	var rows []string
	for _, outer := range entries {
		for _, in := range outer.Inner {
			row := outer.Key + ">" + in.Key + ":"
			if withRound {
				row += classifyJustRound(in.Fields["Round"]) + "/" + classifyJustKey(in.Fields["Key"])
			} else {
				row += classifyJustKey(in.Val)
			}
			rows = append(rows, row)
		}
	}
	sort.Strings(rows)
	return rows
}

func (p *P) specJustTable(withRound bool) []string {
	C, P_, M, D := p.phaseStr("CONVERGE_PHASE"), p.phaseStr("PREPARE_PHASE"), p.phaseStr("COMMIT_PHASE"), p.phaseStr("DECIDE_PHASE")
	type row struct{ m, j, r, k string }
	spec := []row{{C, M, "r-1", "zero"}, {C, P_, "r-1", "msg"}, {P_, M, "r-1", "zero"}, {P_, P_, "r-1", "msg"}, {M, P_, "r", "msg"}, {D, M, "any", "msg"}}
	var out []string
	for _, s := range spec {
		if withRound {
			out = append(out, s.m+">"+s.j+":"+s.r+"/"+s.k)
		} else {
			out = append(out, s.m+">"+s.j+":"+s.k)
		}
	}
	sort.Strings(out)
	return out
}

func c05(p *P) {
	r := p.r
	r.Explanation = "Static necessary conditions of sound, complete-when-relevant, history-independent message validation: (R1) accept (and the cache insertion) in validateMessageWithVoteValueKey is unreachable under failure injection of each check; (R2/R3) the complete decision table of that function over phase × round × bottom × partial × ticket × justification-present × justification-valid (512 rows, SCCP) equals the protocol table; (R4) the justification expectation table extracted from the SSA map literal equals the spec, and every guard of validateJustification (instance, supplemental data, chain validity, table hit, round equal in BOTH directions, value key) gates signature acceptance; (R5) validateJustificationSignature: strong quorum of the committee's own table and aggregate over the payload with the expected key; (R6) history independence: cache keys cover the whole message (incl. the announced key) / the justification plus the very key the aggregate is verified against; namespaces distinct; lookups read-only; insertion only after all guards; nothing under validation reads progress; (R7) relevance table of validateByProgress (240 rows) equals spec and never yields Invalid; (R8) GroupedSet/Set discipline."
	r.NotDecided = "cryptographic soundness (AS2); data races under concurrent validation beyond the mutex rule; extensional equality of verdicts on all byte strings."
	r.Assumptions = []string{"AS2: Verify/VerifyAggregate/VerifyTicket are sound", "AS6: go/types, go/ssa and the rule tables are correct"}
	r.Rule("C05.R1", "message accept/caching unreachable when any check fails", 10)
	r.Rule("C05.R2", "per-phase rule + needs-justification decision table = spec (512 rows)", 1)
	r.Rule("C05.R4", "justification expectation table = spec; all justification guards gate acceptance", 12)
	r.Rule("C05.R5", "justification signature: strong quorum of the same committee, aggregate over payload with expected key", 8)
	r.Rule("C05.R6", "history independence: cache keys, namespaces, read-only lookup, insert-after-guards, progress not read under validation", 12)
	r.Rule("C05.R7", "relevance table of validateByProgress = spec; never Invalid; runs before the cache in every entry point", 5)
	r.Rule("C05.R8", "validation cache structures: map accesses under their mutex; key binds namespace and value", 6)
	r.Rule("C05.R9", "committee cache: only successful non-nil lookups remembered, under the requested instance; eviction only below the bound", 6)
	r.Rule("C05.R11", "progress observer: every notification is published (relevance is judged against the participant's current progress)", 2)
	r.Rule("C05.R12", "BLS backend: a public key is cached/accepted only after decoding to a non-null point", 4)
	p.include(c08, map[string]string{"C08.R1": "C05.R10", "C08.R4": "C05.R10b"}, map[string]string{"C05.R10": "strong-quorum threshold exact (justification quorum)", "C05.R10b": "sender's scaled power computed exactly"})

	p.gEquality("C05.R4")
	vm := p.fn("C05.R1", "gpbft.cachingValidator.validateMessageWithVoteValueKey")
	// the cache lookup: the validator's wrapper or the grouped set's Contains called directly
	noHit := union(callResult("", "gpbft.cachingValidator.isAlreadyValidated", "", 0, avFalse), callResult("", "internal/caching.GroupedSet.Contains", "", 0, avFalse))
	// ---------------- R1
	if vm != nil {
		sinks := okReturns(vm)
		adds := callSinks(vm, "cache insertion", "internal/caching.GroupedSet.Add")
		sinks = append(sinks, adds...)
		g := func(name string, v VM) VM { v.Name = name; return v.with(noHit) }
		p.guarded("C05.R1", vm, sinks,
			g("committee available", errFails("", "iface:CommitteeProvider.GetCommittee", "")),
			g("sender has non-zero power", cmpRel("", `gpbft\.PowerTable\.Get\(.*\$4\.Sender\)#0$`, `^0$`, RelEQ)),
			g("vote value well-formed", errFails("", "gpbft.ECChain.Validate", `\$4\.Vote\.Value`)),
			g("sender signature verifies", errFails("", "iface:Verifier.Verify", "")),
		)
		p.guardedAfter("C05.R1", vm, sinks, g("justification valid (when required)", errFails("", "gpbft.cachingValidator.validateJustification", "")))
		// the insertion is the last step: once the id is cached no check may still run and no error may still be returned
		// (a message cached before a later check fails would be accepted on its next presentation).
		later := append(errReturns(vm), callSinks(vm, "validation step", "gpbft.cachingValidator.validateJustification", "iface:Verifier.Verify", "iface:Verifier.VerifyTicket", "gpbft.VerifyTicket", "gpbft.ECChain.Validate", "iface:CommitteeProvider.GetCommittee")...)
		p.notAfter("C05.R1", vm, "cache insertion", adds, "check or rejecting return", later)
		r.Check(len(adds) == 1, "C05.R1", "validateMessageWithVoteValueKey: exactly one cache insertion", p.c.Pos(vm.Pos()), "1", fmt.Sprintf("%d insertions", len(adds)))
		// sender key/power come from the committee of the message's instance; signature over the right payload
		for _, cs := range callsTo(vm, false, "iface:CommitteeProvider.GetCommittee") {
			r.Check(cs.Arg(2) == "$4.Vote.Instance", "C05.R1", "validateMessageWithVoteValueKey: committee of the message's instance", p.c.InstrPos(cs.Instr), cs.Arg(2), "committee fetched for "+cs.Arg(2))
		}
		for _, cs := range callsTo(vm, false, "iface:Verifier.Verify") {
			okKey := strings.HasSuffix(cs.Arg(1), "$4.Sender)#1") && strings.Contains(cs.Arg(1), "gpbft.PowerTable.Get(")
			pl := cs.Arg(2)
			okPl := strings.Contains(pl, "gpbft.Payload.MarshalForSigningWithValueKey(&$4.Vote, $0.networkName, *$3)") && strings.Contains(pl, "gpbft.Payload.MarshalForSigning(&$4.Vote, $0.networkName)")
			r.Check(okKey, "C05.R1", "validateMessageWithVoteValueKey: signature checked against the sender's committee key", p.c.InstrPos(cs.Instr), cs.Arg(1), "public key is "+cs.Arg(1))
			r.Check(okPl, "C05.R1", "validateMessageWithVoteValueKey: signature over the vote payload (announced key when partial)", p.c.InstrPos(cs.Instr), pl, "payload is "+pl)
			r.Check(cs.Arg(3) == "$4.Signature", "C05.R1", "validateMessageWithVoteValueKey: the message's signature is verified", p.c.InstrPos(cs.Instr), cs.Arg(3), "signature argument is "+cs.Arg(3))
		}
		for _, cs := range callsTo(vm, false, "gpbft.VerifyTicket") {
			a := []string{cs.Arg(0), cs.Arg(1), cs.Arg(2), cs.Arg(3), cs.Arg(4), cs.Arg(6)}
			want := []string{"$0.networkName", "#0.Beacon", "$4.Vote.Instance", "$4.Vote.Round", "$4.Sender)#1", "$4.Ticket"}
			ok := true
			for i := range a {
				if !strings.HasSuffix(a[i], want[i]) {
					ok = false
				}
			}
			r.Check(ok, "C05.R1", "validateMessageWithVoteValueKey: ticket verified over (network, beacon, instance, round, sender key)", p.c.InstrPos(cs.Instr), strings.Join(a, ", "), "VerifyTicket arguments: "+strings.Join(a, ", "))
		}
	}

	// ---------------- R2/R3 decision table
	if vm != nil {
		accept := okReturns(vm)
		phases := []struct {
			name string
			v    int64
		}{{"INITIAL", p.phase("INITIAL_PHASE")}, {"QUALITY", p.phase("QUALITY_PHASE")}, {"CONVERGE", p.phase("CONVERGE_PHASE")}, {"PREPARE", p.phase("PREPARE_PHASE")}, {"COMMIT", p.phase("COMMIT_PHASE")}, {"DECIDE", p.phase("DECIDE_PHASE")}, {"TERMINATED", p.phase("TERMINATED_PHASE")}, {"7", 7}}
		fixed := union(
			noHit,
			callResult("", "gpbft.cachingValidator.isAlreadyValidated", "", 1, avNil),
			callResult("", "internal/caching.GroupedSet.Contains", "", 1, avNil),
			callResult("", "iface:CommitteeProvider.GetCommittee", "", 1, avNil),
			cmpRel("", `gpbft\.PowerTable\.Get\(.*\$4\.Sender\)#0$`, `^0$`, RelNE),
			callResult("", "gpbft.ECChain.Validate", `\$4\.Vote\.Value`, -1, avNil),
			callResult("", "iface:Verifier.Verify", "", -1, avNil),
		).Match(vm)
		bad := 0
		rows := 0
		var firstBad []string
		for _, ph := range phases {
			for mask := 0; mask < 64; mask++ {
				round0, bottom, partial, ticket, jpresent, jvalid := mask&1 != 0, mask&2 != 0, mask&4 != 0, mask&8 != 0, mask&16 != 0, mask&32 != 0
				inj := map[ssa.Value]AV{}
				for k, v := range fixed {
					inj[k] = v
				}
				set := func(vm VM) {
					for k, v := range vm.Match(p.c.Fn("gpbft.cachingValidator.validateMessageWithVoteValueKey")) {
						inj[k] = v
					}
				}
				set(canonIs("", `^\$4\.Vote\.Phase$`, avInt(ph.v)))
				if round0 {
					set(canonIs("", `^\$4\.Vote\.Round$`, avInt(0)))
				} else {
					set(canonIs("", `^\$4\.Vote\.Round$`, avInt(1)))
				}
				if partial {
					inj[vm.Params[3]] = avNonNil
					set(callResult("", "gpbft.ECChainKey.IsZero", "", -1, avBool(bottom)))
				} else {
					inj[vm.Params[3]] = avNil
					set(callResult("", "gpbft.ECChain.IsZero", `\$4\.Vote\.Value`, -1, avBool(bottom)))
				}
				set(callResult("", "gpbft.VerifyTicket", "", -1, avBool(ticket)))
				if jpresent {
					set(canonIs("", `^\$4\.Justification$`, avNonNil))
				} else {
					set(canonIs("", `^\$4\.Justification$`, avNil))
				}
				if jvalid {
					set(callResult("", "gpbft.cachingValidator.validateJustification", "", -1, avNil))
				} else {
					set(callResult("", "gpbft.cachingValidator.validateJustification", "", -1, avNonNil))
				}
				s := RunSCCP(vm, inj)
				got := false
				for _, a := range accept {
					if s.Reachable(a.Instr) {
						got = true
					}
				}
				var phaseRule bool
				switch ph.name {
				case "QUALITY", "DECIDE":
					phaseRule = round0 && !bottom
				case "CONVERGE":
					phaseRule = !round0 && !bottom && ticket
				case "PREPARE", "COMMIT":
					phaseRule = true
				}
				needsJ := !(ph.name == "QUALITY" || (ph.name == "PREPARE" && round0) || (ph.name == "COMMIT" && bottom))
				// validateJustification itself rejects a nil justification, so "valid" implies present
				want := phaseRule && ((needsJ && jvalid) || (!needsJ && !jpresent))
				rows++
				if got != want {
					bad++
					if len(firstBad) < 5 {
						firstBad = append(firstBad, fmt.Sprintf("phase=%s round0=%v bottom=%v partial=%v ticketOK=%v justPresent=%v justValid=%v: spec accept=%v, code accept=%v", ph.name, round0, bottom, partial, ticket, jpresent, jvalid, want, got))
					}
				}
			}
		}
		r.Rows += rows
		if len(accept) == 0 {
			r.Undecided("C05.R2", "validateMessageWithVoteValueKey: accept", "no accepting return found")
		} else if bad == 0 {
			r.OK("C05.R2", "validateMessageWithVoteValueKey: phase/justification decision table", p.c.Pos(vm.Pos()), fmt.Sprintf("all %d rows equal the specification (A1, A2)", rows))
		} else {
			for i, b := range firstBad {
				r.Fail("C05.R2", fmt.Sprintf("validateMessageWithVoteValueKey: decision table row %d", i+1), p.c.Pos(vm.Pos()), b+fmt.Sprintf(" (%d of %d rows differ)", bad, rows))
			}
		}
	}

	// ---------------- R4 validateJustification
	if vj := p.fn("C05.R4", "gpbft.cachingValidator.validateJustification"); vj != nil {
		mks := findMakeMaps(vj, "map[gpbft.Phase]map[gpbft.Phase]")
		if len(mks) != 1 {
			r.Undecided("C05.R4", "validateJustification: expectation table", fmt.Sprintf("expected one nested Phase map literal, found %d", len(mks)))
		} else {
			got := justTable(mapLiteral(mks[0]), true)
			want := p.specJustTable(true)
			r.Rows += len(got)
			r.Check(strings.Join(got, " ") == strings.Join(want, " "), "C05.R4", "validateJustification: expectation table = spec A3", p.c.InstrPos(mks[0]),
				strings.Join(got, " "), "table is ["+strings.Join(got, " ")+"] expected ["+strings.Join(want, " ")+"]")
			// lookups use the message phase, then the justification phase
			var looks []string
			allValues(vj, func(v ssa.Value) {
				if l, ok := v.(*ssa.Lookup); ok && l.CommaOk {
					looks = append(looks, canon(l.Index))
				}
			})
			sort.Strings(looks)
			r.Check(strings.Join(looks, ",") == "$3.Justification.Vote.Phase,$3.Vote.Phase", "C05.R4", "validateJustification: table indexed by (message phase, justification phase)", p.c.InstrPos(mks[0]), strings.Join(looks, ","), "lookups index by "+strings.Join(looks, ","))
		}
		sigs := callSinks(vj, "aggregate accepted", "gpbft.cachingValidator.validateJustificationSignature")
		adds := callSinks(vj, "cache insertion", "internal/caching.GroupedSet.Add")
		sinks := append(append(okReturns(vj), sigs...), adds...)
		g := func(name string, v VM) VM { v.Name = name; return v.with(noHit) }
		notAny := cmpRel("", `\.Round$`, `^18446744073709551615$`, RelNE)
		p.guarded("C05.R4", vj, sinks,
			g("justification present", canonIs("", `^\$3\.Justification$`, avNil)),
			g("same instance", cmpRel("", `^\$3\.Vote\.Instance$`, `^\$3\.Justification\.Vote\.Instance$`, RelNE)),
			g("same supplemental data", callResult("", "gpbft.SupplementalData.Eq", "", -1, avFalse)),
			g("justification value well-formed", errFails("", "gpbft.ECChain.Validate", `Justification\.Vote\.Value`)),
			g("message phase may carry a justification", canonIs("", `\[\$3\.Vote\.Phase\]#1$`, avFalse)),
			g("justification phase allowed for the message phase", canonIs("", `\[\$3\.Justification\.Vote\.Phase\]#1$`, avFalse)),
			g("justification round not below the prescribed round", union(cmpRel("", `^\$3\.Justification\.Vote\.Round$`, `struct\{Round uint64; Key \*gpbft\.ECChainKey\}\.Round$`, RelLT), notAny)),
			g("justification round not above the prescribed round", union(cmpRel("", `^\$3\.Justification\.Vote\.Round$`, `struct\{Round uint64; Key \*gpbft\.ECChainKey\}\.Round$`, RelGT), notAny)),
		)
		for _, cs := range callsTo(vj, false, "gpbft.SupplementalData.Eq") {
			a := []string{cs.Arg(0), cs.Arg(1)}
			sort.Strings(a)
			r.Check(strings.Join(a, " ") == "&$3.Justification.Vote.SupplementalData &$3.Vote.SupplementalData", "C05.R4", "validateJustification: compares the message's supplemental data with the justification's", p.c.InstrPos(cs.Instr), strings.Join(a, " vs "), "compares "+strings.Join(a, " with "))
		}
		// full messages: justification value key equals the expected key
		fullKey := union(callResult("", "bytes.Equal", "", -1, avFalse), cmpRel("", `ECChain\.Key\(\$3\.Justification\.Vote\.Value\)`, `(\}\.Key|gpbft\.ECChainKey)$`, RelNE), noHit)
		fullKey.Name = "justification value key = expected key (full message)"
		inj := fullKey.Match(vj)
		nKeyCmp := len(callsTo(vj, false, "bytes.Equal")) + len(cmpRel("", `ECChain\.Key\(\$3\.Justification\.Vote\.Value\)`, `(\}\.Key|gpbft\.ECChainKey)$`, RelNE).Match(vj))
		r.Check(nKeyCmp > 0, "C05.R4", "validateJustification: the justification's value key is compared with the table's key", p.c.Pos(vj.Pos()), fmt.Sprint(nKeyCmp), "no comparison between the justification's value key and the expected key")
		inj[vj.Params[2]] = avNil
		s := RunSCCP(vj, inj)
		for _, sk := range sinks {
			r.Check(!s.Reachable(sk.Instr), "C05.R4", fmt.Sprintf("validateJustification: %s requires %s", sk.Label, fullKey.Name), p.c.InstrPos(sk.Instr), "unreachable under failure injection", sk.Label+" reachable although the justification is for a different value")
		}
		for _, cs := range callsTo(vj, false, "bytes.Equal") {
			av := cs.ArgValues()
			a0, a1 := sliceOfStored(av[0]), sliceOfStored(av[1])
			ok := strings.Contains(a0+" "+a1, "gpbft.ECChain.Key($3.Justification.Vote.Value)") && strings.Contains(a0+" "+a1, "}.Key[:]")
			r.Check(ok, "C05.R4", "validateJustification: compares the justification's value key with the table's key", p.c.InstrPos(cs.Instr), a0+" vs "+a1, "compares "+a0+" with "+a1)
		}
		p.guarded("C05.R4", vj, append(okReturns(vj), adds...), g("aggregate signature valid", errFails("", "gpbft.cachingValidator.validateJustificationSignature", "")))
		p.notAfter("C05.R4", vj, "cache insertion", adds, "check or rejecting return", append(errReturns(vj), callSinks(vj, "validation step", "gpbft.cachingValidator.validateJustificationSignature", "gpbft.ECChain.Validate", "gpbft.SupplementalData.Eq")...))

		// ---------------- R6 (justification cache key binding)
		gk := callsTo(vj, false, "gpbft.cachingValidator.getCacheKey")
		vs := callsTo(vj, false, "gpbft.cachingValidator.validateJustificationSignature")
		if len(gk) != 1 || len(vs) != 1 {
			r.Undecided("C05.R6", "validateJustification: cache key", fmt.Sprintf("expected one getCacheKey and one validateJustificationSignature call, found %d/%d", len(gk), len(vs)))
		} else {
			r.Check(gk[0].Arg(1) == "$3.Justification", "C05.R6", "validateJustification: cache key covers the whole justification", p.c.InstrPos(gk[0].Instr), gk[0].Arg(1), "key is computed over "+gk[0].Arg(1))
			// extra fields: exactly one, a slice of alloc A; signature verified with load(A); A's single store = *expected.Key
			var keyAlloc *ssa.Alloc
			var extra ssa.Value
			if av := gk[0].ArgValues(); len(av) > 2 {
				extra = av[2]
			} else {
				r.Fail("C05.R6", "validateJustification: cache key is bound to the expected value key", p.c.InstrPos(gk[0].Instr), "the cache key of a justification is computed from the justification alone — the value key it was verified against is not part of it")
			}
			if sl, ok := extra.(*ssa.Slice); ok {
				if arr, ok := sl.X.(*ssa.Alloc); ok {
					if els, ok := arrayElems(arr); ok && len(els) == 1 {
						if s2, ok := els[0].(*ssa.Slice); ok {
							keyAlloc, _ = s2.X.(*ssa.Alloc)
						}
					}
				}
			}
			where := p.c.InstrPos(gk[0].Instr)
			if keyAlloc == nil {
				r.Fail("C05.R6", "validateJustification: cache key is bound to the expected value key", where, "the cache key of a justification does not include the value key it was verified against: extra fields = "+canon(extra))
			} else {
				sigKey := vs[0].ArgValues()[3]
				same := false
				if u, ok := sigKey.(*ssa.UnOp); ok && u.X == keyAlloc {
					same = true
				}
				r.Check(same, "C05.R6", "validateJustification: cache key is bound to the very key the aggregate is verified against", where, "same variable feeds getCacheKey and validateJustificationSignature",
					"cache key uses "+canon(extra)+" but the aggregate is verified against "+canon(sigKey)+" — a cached entry would vouch for a different value")
				var stored []string
				for _, ref := range *keyAlloc.Referrers() {
					if st, ok := ref.(*ssa.Store); ok && st.Addr == keyAlloc {
						stored = append(stored, canon(st.Val))
					}
				}
				okSrc := len(stored) == 1 && strings.HasPrefix(stored[0], "*") && strings.HasSuffix(stored[0], "}.Key")
				r.Check(okSrc, "C05.R6", "validateJustification: expected key is the table entry's key", where, strings.Join(stored, ","), "expected key assigned from "+strings.Join(stored, ","))
			}
			r.Check(vs[0].Arg(2) == "$3.Justification" && vs[0].Arg(1) == "$4", "C05.R6", "validateJustification: verifies the message's justification against the given committee", p.c.InstrPos(vs[0].Instr), vs[0].Arg(1)+", "+vs[0].Arg(2), "arguments "+vs[0].Arg(1)+", "+vs[0].Arg(2))
		}
		p.cacheUse("C05.R6", vj, "$3.Vote.Instance", "justification", "$2")
	}
	if vm != nil {
		p.cacheUse("C05.R6", vm, "$4.Vote.Instance", "message", "$3")
	}

	// message cache keys in the entry points
	for _, e := range []struct{ fn, arg string }{{"gpbft.cachingValidator.ValidateMessage", "$2"}, {"gpbft.cachingValidator.PartiallyValidateMessage", "$2"}} {
		fn := p.fn("C05.R6", e.fn)
		if fn == nil {
			continue
		}
		gk := callsTo(fn, false, "gpbft.cachingValidator.getCacheKey")
		if len(gk) != 1 {
			r.Undecided("C05.R6", e.fn+": cache key", fmt.Sprintf("expected one getCacheKey call, found %d", len(gk)))
			continue
		}
		r.Check(gk[0].Arg(1) == e.arg, "C05.R6", e.fn+": cache key covers the whole (partial) message incl. the announced key", p.c.InstrPos(gk[0].Instr), "getCacheKey("+gk[0].Arg(1)+")",
			"cache key is computed over "+gk[0].Arg(1)+" instead of the whole message "+e.arg+" — fields outside it (e.g. the announced value key) no longer distinguish cache entries")
		prog := callSinks(fn, "relevance check", "gpbft.cachingValidator.validateByProgress")
		val := callSinks(fn, "validation", "gpbft.cachingValidator.validateMessageWithVoteValueKey")
		p.before("C05.R7", fn, "relevance check", prog, "validation/cache", val)
		p.guarded("C05.R7", fn, val, errFails("message relevant", "gpbft.cachingValidator.validateByProgress", ""))
		for _, cs := range callsTo(fn, false, "gpbft.cachingValidator.validateMessageWithVoteValueKey") {
			if strings.HasSuffix(e.fn, "PartiallyValidateMessage") {
				r.Check(cs.Arg(3) == "&$2.VoteValueKey" && cs.Arg(4) == "$2.GMessage", "C05.R6", e.fn+": validates with the announced key", p.c.InstrPos(cs.Instr), cs.Arg(3), "value key argument "+cs.Arg(3)+", message "+cs.Arg(4))
			} else {
				r.Check(cs.Arg(3) == "nil" && cs.Arg(4) == "$2", "C05.R6", e.fn+": validates the full message (no announced key)", p.c.InstrPos(cs.Instr), cs.Arg(3), "value key argument "+cs.Arg(3))
			}
		}
	}
	// getCacheKey: bytes = CBOR(msg) ++ every additional field
	if fn := p.fn("C05.R6", "gpbft.cachingValidator.getCacheKey"); fn != nil {
		m := callsTo(fn, false, "iface:Marshaler.MarshalCBOR")
		w := callsTo(fn, false, "bytes.Buffer.Write")
		ok := len(m) == 1 && m[0].Arg(0) == "$1" && len(w) == 1 && strings.HasPrefix(w[0].Arg(1), "$2[")
		r.Check(ok, "C05.R6", "getCacheKey: key = CBOR(message) ++ every additional field", p.c.Pos(fn.Pos()), "marshals $1, appends each element of $2", "getCacheKey no longer covers the message and all additional fields")
		if len(w) == 1 {
			p.fullRangeLoop("C05.R6", "getCacheKey: every additional field appended", w[0].Instr, nil)
		}
		p.guarded("C05.R6", fn, okReturns(fn), errFails("marshal ok", "iface:Marshaler.MarshalCBOR", ""))
	}
	// isAlreadyValidated is read-only
	if fn := p.c.Fn("gpbft.cachingValidator.isAlreadyValidated"); fn == nil {
		direct := 0
		if vm != nil {
			direct = len(callsTo(vm, false, "internal/caching.GroupedSet.Contains"))
		}
		r.Check(direct > 0, "C05.R6", "isAlreadyValidated: read-only lookup", "", "the validator consults GroupedSet.Contains directly (read-only by C05.R8)", "no cache lookup found in validateMessageWithVoteValueKey")
	} else {
		var callees []string
		for _, cs := range callSites(fn, false) {
			if strings.Contains(cs.Callee(), "caching.") {
				callees = append(callees, cs.Callee())
			}
		}
		r.Check(len(callees) == 1 && callees[0] == "internal/caching.GroupedSet.Contains", "C05.R6", "isAlreadyValidated: read-only lookup", p.c.Pos(fn.Pos()), "only GroupedSet.Contains", "isAlreadyValidated calls "+strings.Join(callees, ",")+" — a lookup that inserts makes a rejected message look validated on resubmission")
		for _, cs := range callsTo(fn, false, "internal/caching.GroupedSet.Contains") {
			r.Check(cs.Arg(1) == "$1" && cs.Arg(2) == "$2" && cs.Arg(3) == "$3", "C05.R6", "isAlreadyValidated: looks up (group, namespace, key) as given", p.c.InstrPos(cs.Instr), "", "arguments permuted: "+cs.Arg(1)+","+cs.Arg(2)+","+cs.Arg(3))
		}
		pos := constReturns(fn, 0, "true")
		_ = pos
		for _, ret := range returnsOf(fn) {
			v := retValue(ret, 0)
			c := canon(v)
			r.Check(c == "false" || strings.HasPrefix(c, "internal/caching.GroupedSet.Contains("), "C05.R6", "isAlreadyValidated: returns the lookup result", p.c.InstrPos(ret), c, "returns "+c)
		}
	}
	// cache.Add only in the two validation functions
	p.onlyCalledFrom("C05.R6", "internal/caching.GroupedSet.Add", "gpbft.cachingValidator.validateMessageWithVoteValueKey", "gpbft.cachingValidator.validateJustification")
	// namespaces: four distinct constants
	{
		seen := map[string]bool{}
		n := 0
		for _, f := range p.c.ProdFuncs() {
			if !strings.HasPrefix(funcName(f), "gpbft.init$") {
				continue
			}
			for _, ret := range returnsOf(f) {
				for _, res := range ret.Results {
					var walk func(v ssa.Value, d int)
					walk = func(v ssa.Value, d int) {
						if d > 4 {
							return
						}
						switch x := v.(type) {
						case *ssa.Phi:
							for _, e := range x.Edges {
								walk(e, d+1)
							}
						case *ssa.Convert:
							walk(x.X, d+1)
						case *ssa.Const:
							if strings.HasSuffix(shortType(ret.Parent().Signature.Results().At(0).Type()), "validatorNamespace") || shortType(ret.Parent().Signature.Results().At(0).Type()) == "[]byte" {
								seen[constStr(x)] = true
								n++
							}
						}
					}
					walk(res, 0)
				}
			}
		}
		r.Check(len(seen) == 4 && n == 4, "C05.R6", "validation namespaces: four distinct constants (message/justification × full/partial)", "", fmt.Sprint(len(seen)), fmt.Sprintf("found %d namespace constants, %d distinct: partial and full entries (or messages and justifications) could collide", n, len(seen)))
	}
	// nothing reachable from validateMessageWithVoteValueKey reads `progress`
	if vm != nil {
		reach := reachableFuncs(p.c, vm)
		var readers []string
		for f := range reach {
			allValues(f, func(v ssa.Value) {
				if fa, ok := v.(*ssa.FieldAddr); ok && fieldName(fa.X.Type(), fa.Field) == "progress" && typeBase(fa.X.Type()) == "cachingValidator" {
					readers = append(readers, funcName(f))
				}
			})
			for _, cs := range callsTo(f, false, "gpbft.cachingValidator.validateByProgress") {
				readers = append(readers, funcName(cs.Fn))
			}
		}
		r.Check(len(readers) == 0, "C05.R6", "validation after the relevance check does not read the participant's progress", p.c.Pos(vm.Pos()), fmt.Sprintf("%d functions reachable, none reads progress", len(reach)), "progress is read inside cached validation by "+strings.Join(uniq(readers), ",")+" — a cached verdict would depend on when it was computed")
	}

	// ---------------- R5
	if fn := p.fn("C05.R5", "gpbft.cachingValidator.validateJustificationSignature"); fn != nil {
		p.guarded("C05.R5", fn, okReturns(fn),
			errFails("signers resolve", "gpbft.Justification.GetSigners", ""),
			callResult("strong quorum", "gpbft.IsStrongQuorum", "", -1, avFalse),
			errFails("aggregate verifies", "iface:Aggregate.VerifyAggregate", ""))
		chk := func(callee string, idx int, want, what string) {
			cs := callsTo(fn, false, callee)
			if len(cs) != 1 {
				r.Fail("C05.R5", "validateJustificationSignature: "+what, p.c.Pos(fn.Pos()), fmt.Sprintf("expected one call to %s, found %d", callee, len(cs)))
				return
			}
			r.Check(cs[0].Arg(idx) == want, "C05.R5", "validateJustificationSignature: "+what, p.c.InstrPos(cs[0].Instr), cs[0].Arg(idx), "argument is "+cs[0].Arg(idx)+" (expected "+want+")")
		}
		chk("gpbft.Justification.GetSigners", 0, "$2", "signers of the given justification")
		chk("gpbft.Justification.GetSigners", 1, "$1.PowerTable", "signer power from the committee's table")
		chk("gpbft.IsStrongQuorum", 0, "gpbft.Justification.GetSigners($2, $1.PowerTable)#0", "quorum part = signers' scaled power")
		chk("gpbft.IsStrongQuorum", 1, "$1.PowerTable.ScaledTotal", "quorum whole = the same table's scaled total")
		chk("iface:Aggregate.VerifyAggregate", 0, "$1.AggregateVerifier", "aggregate verifier of the committee")
		chk("iface:Aggregate.VerifyAggregate", 1, "gpbft.Justification.GetSigners($2, $1.PowerTable)#1", "verified for exactly the counted signers")
		chk("iface:Aggregate.VerifyAggregate", 2, "gpbft.Payload.MarshalForSigningWithValueKey(&$2.Vote, $0.networkName, $3)", "payload = justification vote with the expected key")
		chk("iface:Aggregate.VerifyAggregate", 3, "$2.Signature", "the justification's aggregate signature")
	}
	if fn := p.fn("C05.R5", "gpbft.Justification.GetSigners"); fn != nil {
		// accumulation only past range and zero-power rejections
		var acc []Sink
		for _, b := range fn.Blocks {
			for _, in := range b.Instrs {
				if st, ok := in.(*ssa.Store); ok {
					if bo, ok := st.Val.(*ssa.BinOp); ok && bo.Op.String() == "+" && strings.Contains(canon(bo), "ScaledPower[") {
						acc = append(acc, Sink{st, "signer power accumulated"})
					}
				}
			}
		}
		target := fn
		if len(acc) == 0 {
			for _, a := range fn.AnonFuncs {
				for _, b := range a.Blocks {
					for _, in := range b.Instrs {
						if st, ok := in.(*ssa.Store); ok {
							if bo, ok := st.Val.(*ssa.BinOp); ok && bo.Op.String() == "+" && strings.Contains(canon(bo), "ScaledPower[") {
								acc = append(acc, Sink{st, "signer power accumulated"})
								target = a
							}
						}
					}
				}
			}
		}
		if len(acc) == 0 {
			r.Undecided("C05.R5", "GetSigners: accumulation", "no accumulation of ScaledPower found")
		} else {
			p.guarded("C05.R5", target, acc,
				cmpRel("signer index in range", `^\$0$|^uint64|^int\(`, `^len\(.*Entries\)$|len\(`, RelEQ),
				cmpRel("signer has non-zero scaled power", `ScaledPower\[`, `^0$`, RelEQ))
		}
	}

	// ---------------- R7 relevance table
	if fn := p.fn("C05.R7", "gpbft.cachingValidator.validateByProgress"); fn != nil {
		errOf := func(ret *ssa.Return) string {
			c := canon(retValue(ret, 0))
			switch {
			case c == "nil":
				return "validate"
			case strings.HasSuffix(c, "ErrValidationNoCommittee"):
				return "NoCommittee"
			case strings.HasSuffix(c, "ErrValidationNotRelevant"):
				return "NotRelevant"
			case strings.HasSuffix(c, "ErrValidationTooOld"):
				return "TooOld"
			}
			return "other:" + c
		}
		rets := returnsOf(fn)
		okKinds := true
		for _, ret := range rets {
			if strings.HasPrefix(errOf(ret), "other:") {
				okKinds = false
				r.Fail("C05.R7", "validateByProgress: verdict kinds", p.c.InstrPos(ret), "relevance check returns "+errOf(ret)+" — only nil, NoCommittee, NotRelevant, TooOld are allowed (a valid message must never be branded invalid)")
			}
		}
		if okKinds {
			r.OK("C05.R7", "validateByProgress: verdict kinds", p.c.Pos(fn.Pos()), "returns only nil / NoCommittee / NotRelevant / TooOld")
		}
		bad, rows := 0, 0
		var firstBad []string
		const C, L, R = 10, 5, 5
		for _, I := range []int64{C + L + 1, C + L, C + L - 1, C + 1, C, C - 1, C - 2} {
			for ph := int64(0); ph < 8; ph++ {
				for _, curDecide := range []bool{true, false} {
					for _, rr := range []int64{R + 1, R, R - 1, R - 2} {
						inj := cmpUnder(fn, map[string]int64{"$1.Vote.Instance": I, "Instant.ID": C, "$0.committeeLookback": L, "$1.Vote.Round": rr, "Instant.Round": R})
						set := func(vm VM) {
							for k, v := range vm.Match(fn) {
								inj[k] = v
							}
						}
						set(canonIs("", `^\$1\.Vote\.Phase$`, avInt(ph)))
						if curDecide {
							set(canonIs("", `Instant\.Phase$`, avInt(p.phase("DECIDE_PHASE"))))
						} else {
							set(canonIs("", `Instant\.Phase$`, avInt(p.phase("PREPARE_PHASE"))))
						}
						s := RunSCCP(fn, inj)
						got := map[string]bool{}
						for _, ret := range rets {
							if s.Reachable(ret) {
								got[errOf(ret)] = true
							}
						}
						isDecide := ph == p.phase("DECIDE_PHASE")
						isQuality := ph == p.phase("QUALITY_PHASE")
						var want string
						switch {
						case I >= C+L:
							want = "NoCommittee"
						case I > C:
							want = "validate"
						case I == C-1 && isDecide:
							want = "validate"
						case I == C:
							switch {
							case curDecide && !isDecide:
								want = "NotRelevant"
							case isQuality || isDecide || rr >= R || rr+1 == R:
								want = "validate"
							default:
								want = "NotRelevant"
							}
						default:
							want = "TooOld"
						}
						rows++
						var gl []string
						for k := range got {
							gl = append(gl, k)
						}
						sort.Strings(gl)
						if len(gl) != 1 || gl[0] != want {
							bad++
							if len(firstBad) < 5 {
								firstBad = append(firstBad, fmt.Sprintf("instance=c%+d (L=%d), msg phase %d, current phase DECIDE=%v, msg round=R%+d: spec %s, code %v", I-C, L, ph, curDecide, rr-R, want, gl))
							}
						}
					}
				}
			}
		}
		r.Rows += rows
		if bad == 0 {
			r.OK("C05.R7", "validateByProgress: relevance decision table", p.c.Pos(fn.Pos()), fmt.Sprintf("all %d rows equal specification A4", rows))
		} else {
			for i, b := range firstBad {
				r.Fail("C05.R7", fmt.Sprintf("validateByProgress: relevance table row %d", i+1), p.c.Pos(fn.Pos()), b+fmt.Sprintf(" (%d of %d rows differ)", bad, rows))
			}
		}
	}

	// ---------------- R8 caching structures
	for _, spec := range []struct{ typ, mu string; fields []string }{{"GroupedSet", "&$0.mu", []string{"groups", "recency"}}, {"Set", "&$0.mu", []string{"flip", "flop"}}} {
		for _, f := range p.c.ProdFuncs() {
			if !strings.HasPrefix(funcName(f), "internal/caching."+spec.typ+".") {
				continue
			}
			for _, b := range f.Blocks {
				for _, in := range b.Instrs {
					fa, ok := in.(*ssa.FieldAddr)
					if !ok || typeBase(fa.X.Type()) != spec.typ {
						continue
					}
					fnm := fieldName(fa.X.Type(), fa.Field)
					hit := false
					for _, w := range spec.fields {
						if w == fnm {
							hit = true
						}
					}
					if !hit {
						continue
					}
					held := p.heldAtOrByCallers(f, in, spec.mu, true, 0)
				r.Check(held, "C05.R8", fmt.Sprintf("%s: %s.%s accessed under mu", funcName(f), spec.typ, fnm), p.c.InstrPos(in), "lock held", "validation-cache state accessed without its mutex")
				}
			}
		}
	}
	// ---------------- R9: committee cache — only successful, non-nil lookups are remembered
	if gc := p.fn("C05.R9", "gpbft.cachedCommitteeProvider.GetCommittee"); gc != nil {
		var ups []Sink
		for _, mu := range mapUpdates(gc, ".committees") {
			ups = append(ups, Sink{mu, "committee remembered"})
			r.Check(canon(mu.Key) == "$2" && canon(mu.Value) == "iface:CommitteeProvider.GetCommittee($0.delegate, $1, $2)#0", "C05.R9", "cachedCommitteeProvider.GetCommittee: remembers the delegate's committee under the requested instance", p.c.InstrPos(mu), canon(mu.Key)+" ↦ "+canon(mu.Value), "cache entry "+canon(mu.Key)+" ↦ "+canon(mu.Value))
			r.Check(heldAt(gc, mu, "&$0.mu", true), "C05.R9", "cachedCommitteeProvider.GetCommittee: cache written under mu", p.c.InstrPos(mu), "held", "committee cache written without its mutex")
		}
		if len(ups) == 0 {
			r.Undecided("C05.R9", "cachedCommitteeProvider.GetCommittee: cache write", "no write to the committees map found")
		} else {
			gs := []VM{errFails("delegate lookup succeeded", "iface:CommitteeProvider.GetCommittee", ""), canonIs("committee non-nil", `^iface:CommitteeProvider\.GetCommittee\(\$0\.delegate, \$1, \$2\)#0$`, avNil)}
			p.guarded("C05.R9", gc, ups, gs...)
			p.guardedAfter("C05.R9", gc, okReturns(gc), gs...)
		}
	}
	if ev := p.fn("C05.R9", "gpbft.cachedCommitteeProvider.EvictCommitteesBefore"); ev != nil {
		dels := callSinksRe(ev, "committee evicted", `^delete\(\$0\.committees`)
		// idiom: maps.DeleteFunc(c.committees, func(k, _) bool { return k < instance })
		viaStd := false
		for _, cs := range callSites(ev, false) {
			if !strings.HasPrefix(cs.Callee(), "maps.DeleteFunc") || len(cs.Common.Args) != 2 || cs.Arg(0) != "$0.committees" {
				continue
			}
			mc, ok := cs.Common.Args[1].(*ssa.MakeClosure)
			if !ok {
				continue
			}
			pred, ok := mc.Fn.(*ssa.Function)
			if !ok || len(pred.Params) < 1 {
				continue
			}
			okPred := true
			for _, rel := range []Rel{RelEQ, RelGT} {
				inj := cmpRel("", `^\$0$`, `^\$\^1$`, rel).Match(pred)
				if len(inj) == 0 {
					okPred = false
					break
				}
				sp := RunSCCP(pred, inj)
				for _, ret := range returnsOf(pred) {
					if sp.Reachable(ret) && len(ret.Results) == 1 {
						if av := sp.get(ret.Results[0]); !(av.K == Cst && av.C.String() == "false") {
							okPred = false
						}
					}
				}
			}
			viaStd = true
			r.Check(okPred, "C05.R9", "EvictCommitteesBefore: only instances below the bound are evicted", p.c.InstrPos(cs.Instr), "maps.DeleteFunc predicate is key < bound", "the eviction predicate can hold for an instance at or above the bound")
		}
		if viaStd {
			// decided above
		} else if len(dels) == 0 {
			r.Undecided("C05.R9", "EvictCommitteesBefore: delete", "no delete found")
		} else {
			p.guarded("C05.R9", ev, dels,
				cmpRel("evicted instance not at the bound", `^next\(range\(\$0\.committees\)\)#1$`, `^\$1$`, RelEQ),
				cmpRel("evicted instance not above the bound", `^next\(range\(\$0\.committees\)\)#1$`, `^\$1$`, RelGT))
		}
	}
	// ---------------- R11: the progress the validator judges relevance against is the participant's latest notification
	if np := p.fn("C05.R11", "gpbft.atomicProgression.NotifyProgress"); np != nil {
		var sts []Sink
		for _, cs := range callSites(np, false) {
			n := cs.Callee()
			if strings.HasPrefix(n, "sync/atomic.Pointer") && (strings.HasSuffix(n, ".Store") || strings.HasSuffix(n, ".Swap") || strings.HasSuffix(n, ".CompareAndSwap")) {
				sts = append(sts, Sink{cs.Instr, "progress published"})
			}
		}
		var rets []Sink
		for _, ret := range returnsOf(np) {
			rets = append(rets, Sink{ret, "return"})
		}
		p.before("C05.R11", np, "progress published", sts, "return", rets)
		for _, cs := range callSites(np, false) {
			if strings.HasSuffix(cs.Callee(), ".Store") && strings.HasPrefix(cs.Callee(), "sync/atomic.Pointer") {
				r.Check(strings.Contains(cs.Arg(1), "$1"), "C05.R11", "NotifyProgress: publishes the notified progress", p.c.InstrPos(cs.Instr), cs.Arg(1), "publishes "+cs.Arg(1))
			}
		}
	}
	// ---------------- R12: (BLS backend) a public key is remembered only after it decoded to a non-null point
	if pk := p.fn("C05.R12", "blssig.Verifier.pubkeyToPoint"); pk != nil {
		ups := mapWriteSinks(pk, ".pointCache", "point remembered")
		if len(ups) == 0 {
			r.Undecided("C05.R12", "blssig.Verifier.pubkeyToPoint: cache write", "no write to the point cache found")
		} else {
			hit := canonIs("", `\.pointCache\[string\(\$1\)\]#1$`, avFalse)
			gs := []VM{
				errFails("key decodes", "iface:Point.UnmarshalBinary", "").with(hit),
				callResult("not the null point", "iface:Point.Equal", `Null\(`, -1, avTrue).with(hit),
			}
			gs[0].Name, gs[1].Name = "key decodes", "not the null point"
			p.guarded("C05.R12", pk, ups, gs...)
			p.guardedAfter("C05.R12", pk, okReturns(pk), gs...)
		}
	}
	if fn := p.fn("C05.R8", "internal/caching.Set.newKey"); fn != nil {
		n := callsTo(fn, false, "golang.org/x/crypto/blake2b.New")
		w := callsTo(fn, false, "iface:Hash.Write")
		ok := len(n) == 1 && n[0].Arg(1) == "$1" && len(w) == 1 && w[0].Arg(1) == "$2"
		r.Check(ok, "C05.R8", "Set.newKey: digest keyed by the namespace over the whole value", p.c.Pos(fn.Pos()), "blake2b.New(…, namespace); Write(v)", "cache digest no longer binds namespace and value")
	}
	if fn := p.fn("C05.R8", "internal/caching.Set.Contains"); fn != nil {
		n := 0
		for _, b := range fn.Blocks {
			for _, in := range b.Instrs {
				if _, ok := in.(*ssa.MapUpdate); ok {
					n++
				}
			}
		}
		r.Check(n == 0, "C05.R8", "Set.Contains: read-only", p.c.Pos(fn.Pos()), "no map update", "Set.Contains modifies the set")
	}
	if fn := p.fn("C05.R8", "internal/caching.GroupedSet.Contains"); fn != nil {
		cs := callsTo(fn, false, "internal/caching.Set.Contains")
		ok := len(cs) == 1 && strings.Contains(cs[0].Arg(0), "$0.groups[$1]") && cs[0].Arg(1) == "$2" && cs[0].Arg(2) == "$3"
		r.Check(ok, "C05.R8", "GroupedSet.Contains: looks up (namespace, value) in the group's set", p.c.Pos(fn.Pos()), "", "GroupedSet.Contains no longer consults the group's set with the given namespace/value")
		n := 0
		for _, c := range callSites(fn, false) {
			if strings.HasSuffix(c.Callee(), "ContainsOrAdd") || strings.HasSuffix(c.Callee(), ".Add") {
				n++
			}
		}
		r.Check(n == 0, "C05.R8", "GroupedSet.Contains: read-only", p.c.Pos(fn.Pos()), "no insertion", "GroupedSet.Contains inserts")
	}
}

// cacheUse checks the (group, namespace, key) triple of every cache call in fn.
func (p *P) cacheUse(rule string, fn *ssa.Function, group, kind, valueKeyParam string) {
	ns := fmt.Sprintf(`^\*gpbft\.validationNamespaces\.%s\(\(%s != nil\)\)$|validationNamespaces\.%s`, kind, regexpQuote(valueKeyParam), kind)
	n := 0
	var keys []string
	for _, cs := range callSites(fn, false) {
		c := cs.Callee()
		if c != "gpbft.cachingValidator.isAlreadyValidated" && c != "internal/caching.GroupedSet.Add" && c != "internal/caching.GroupedSet.Contains" {
			continue
		}
		n++
		what := funcName(fn) + ": " + c[strings.LastIndex(c, ".")+1:]
		p.r.Check(cs.Arg(1) == group, rule, what+" grouped by the message's instance", p.c.InstrPos(cs.Instr), cs.Arg(1), "cache group is "+cs.Arg(1))
		nsv := cs.ArgValues()[2]
		p.r.Check(re(ns).MatchString(canon(nsv)) && nsDependsOnPartial(nsv, valueKeyParam), rule, what+" uses the "+kind+" namespace for partial/full", p.c.InstrPos(cs.Instr), canon(nsv), "namespace is "+canon(nsv))
		k := cs.Arg(3)
		if strings.HasPrefix(k, "phi(") && strings.HasSuffix(k, "|nil)") {
			k = strings.TrimSuffix(strings.TrimPrefix(k, "phi("), "|nil)") // key or nil when it could not be computed; insertion is skipped for nil
		}
		keys = append(keys, k)
	}
	p.r.Check(n == 2 && len(uniq(keys)) == 1, rule, funcName(fn)+": lookup and insertion use the same cache key", p.c.Pos(fn.Pos()), strings.Join(uniq(keys), ","), fmt.Sprintf("%d cache calls with keys %v", n, uniq(keys)))
}

func nsDependsOnPartial(v ssa.Value, param string) bool {
	call, ok := v.(*ssa.Call)
	if !ok || len(call.Call.Args) != 1 {
		return false
	}
	return strings.Contains(canon(call.Call.Args[0]), param+" != nil")
}

// reachableFuncs: in-repo functions reachable from root through static calls and closures.
func reachableFuncs(c *Ctx, root *ssa.Function) map[*ssa.Function]bool {
	seen := map[*ssa.Function]bool{}
	var walk func(f *ssa.Function)
	walk = func(f *ssa.Function) {
		if f == nil || seen[f] || f.Blocks == nil {
			return
		}
		if f.Pkg == nil || !strings.HasPrefix(f.Pkg.Pkg.Path(), modPath) {
			return
		}
		seen[f] = true
		for _, a := range f.AnonFuncs {
			walk(a)
		}
		for _, cs := range callSites(f, false) {
			if callee := cs.Common.StaticCallee(); callee != nil {
				walk(callee)
			}
		}
	}
	walk(root)
	return seen
}
