package main

import (
	"fmt"
	"go/constant"
	"go/types"
	"strings"

	"golang.org/x/tools/go/ssa"
)

func init() { register("C16", c16) }

func linConst(c int64) Lin { return Lin{C: c, T: map[string]int64{}} }

// intermediates: integer phis M of fn with M ≤ bound proven on all their cases.
func boundedPhis(fn *ssa.Function, bound Lin) []ssa.Value {
	var out []ssa.Value
	for _, in := range instrsOf(fn) {
		v, ok := in.(ssa.Value)
		if !ok || !isInteger(v.Type()) {
			continue
		}
		switch x := v.(type) {
		case *ssa.Phi:
		case *ssa.Call:
			b, isB := x.Call.Value.(*ssa.Builtin)
			if !isB || (b.Name() != "min" && b.Name() != "max") {
				continue
			}
		default:
			continue
		}
		if ok, _ := proveLE(v, bound, in.Block()); ok {
			out = append(out, v)
		}
	}
	return out
}

// proveCountLE: (end − start + 1) ≤ bound on every case of end, directly or through a bounded intermediate phi.
func proveCountLE(fn *ssa.Function, start, end ssa.Value, at *ssa.BasicBlock, bound Lin) (bool, string) {
	base := hypsAt(at)
	mids := []Lin{bound}
	for _, m := range boundedPhis(fn, bound) {
		mids = append(mids, linOf(m))
	}
	var why []string
	for _, c := range cases(end, base, 3) {
		count := c.lin(c.V).add(c.lin(start), -1).add(linConst(1), 1)
		ok := false
		for _, m := range mids {
			if e, w := entails(c.Hyps, count.add(m, -1)); e {
				ok = true
				why = append(why, fmt.Sprintf("end=%s: count ≤ %s %s", canon(c.V), m.String(), w))
				break
			}
		}
		if !ok {
			return false, fmt.Sprintf("for end = %s the number of certificates served (end−start+1 = %s) is not bounded by %s", canon(c.V), count.String(), bound.String())
		}
	}
	return true, strings.Join(why, "; ")
}

func findField(fn *ssa.Function, rx string) ssa.Value {
	r := re(rx)
	var out ssa.Value
	allValues(fn, func(v ssa.Value) {
		if out == nil && !strings.HasPrefix(canon(v), "&") && r.MatchString(canon(v)) {
			out = v
		}
	})
	return out
}

func c16(p *P) {
	r := p.r
	r.Explanation = "Static necessary conditions of exact certificate exchange: (R1) the server's range arithmetic normalised to linear forms over ℤ — start = First, end−start+1 ≤ Limit and ≤ maxResponseLen, end ≤ Pending−1 on every phi case under the comparisons that dominate it, and no unsigned wrap-around in the index expressions; (R2) power table served only when requested and Pending ≥ First, at FirstInstance, header before certificates; (R3) client delivers a certificate only past the sequence check, inside the Limit-bounded loop, with the read limit reset before each decode; (R4) the poller stores a certificate only after ValidateFinalityCertificates against its own table/next instance succeeded, advances only to that call's outputs, and marks the peer illegal on failure."
	r.NotDecided = "byte-for-byte equality of re-marshalled certificates with the stored bytes; behaviour of the libp2p stream; that GetRange returns the stored certificates (C09)."
	r.Assumptions = []string{"AS6: go/types, go/ssa and the rule tables are correct", "a struct field read twice without an intervening store in the function yields the same value (checked: no store between)", "linear forms ignore integer width; wrap-around is a separate obligation (noWrap)"}
	r.Rule("C16.R1", "server: start = FirstInstance; served count ≤ min(Limit, maxResponseLen); end ≤ Pending−1; no unsigned wrap-around", 5)
	r.Rule("C16.R2", "server: power table only if requested and Pending ≥ First, taken at FirstInstance; header written before certificates", 4)
	r.Rule("C16.R3", "client: delivery only past the sequence check, at most Limit iterations, read limit reset before each decode, decode error stops delivery", 4)
	r.Rule("C16.R4", "poller: Store.Put only after successful validation against own table/next instance; advance only to validated outputs; illegal peer on failure", 6)
	p.include(c04, map[string]string{"C04.R1": "C16.R5", "C04.R2": "C16.R5b", "C04.R3": "C16.R5c"}, map[string]string{"C16.R5": "the validation the poller relies on gates every certificate", "C16.R5b": "signature validation", "C16.R5c": "on rejection the reported state is exactly the valid prefix"})
	p.include(c09, map[string]string{"C09.R1": "C16.R6"}, map[string]string{"C16.R6": "the store admits only the successor with a reproducing delta"})

	// ---------------- R1/R2 server
	if h := p.fn("C16.R1", "certexchange.Server.handleRequest"); h != nil {
		grs := callsTo(h, false, "certstore.Store.GetRange")
		if len(grs) != 1 {
			r.Undecided("C16.R1", "certexchange.Server.handleRequest: GetRange call", fmt.Sprintf("expected exactly one GetRange call, found %d", len(grs)))
		} else {
			gr := grs[0]
			args := gr.ArgValues() // recv, ctx, start, end
			start, end := args[2], args[3]
			where := p.c.InstrPos(gr.Instr)
			at := gr.Instr.Block()
			first := findField(h, `^alloc\d+:certexchange\.Request\.FirstInstance$|\.FirstInstance$`)
			limit := findField(h, `Request\.Limit$`)
			pending := findField(h, `ResponseHeader\.PendingInstance$`)
			if first == nil || limit == nil || pending == nil {
				r.Undecided("C16.R1", "certexchange.Server.handleRequest: request fields", "could not locate FirstInstance/Limit/PendingInstance loads")
			} else {
				r.Check(linOf(start).equal(linOf(first)), "C16.R1", "certexchange.Server.handleRequest: range starts at the requested instance", where,
					"start = "+linOf(start).String(), "GetRange start is "+linOf(start).String()+", not req.FirstInstance")
				ok, why := proveCountLE(h, start, end, at, linOf(limit))
				r.Check(ok, "C16.R1", "certexchange.Server.handleRequest: served count ≤ req.Limit", where, why, "served count not bounded by the requested limit: "+why)
				maxLen := p.constValue("certexchange", "maxResponseLen")
				ok, why = proveCountLE(h, start, end, at, linConst(maxLen))
				r.Check(ok && maxLen > 0, "C16.R1", "certexchange.Server.handleRequest: served count ≤ maxResponseLen", where, why, fmt.Sprintf("served count not bounded by maxResponseLen=%d: %s", maxLen, why))
				ok, why = proveLE(end, linOf(pending).add(linConst(1), -1), at)
				r.Check(ok, "C16.R1", "certexchange.Server.handleRequest: end ≤ PendingInstance−1", where, why, "the range may reach the advertised pending instance: "+why)
				var fails []string
				noWrap(end, hypsAt(at), map[ssa.Value]bool{}, &fails)
				noWrap(start, hypsAt(at), map[ssa.Value]bool{}, &fails)
				r.Check(len(fails) == 0, "C16.R1", "certexchange.Server.handleRequest: no unsigned wrap-around in the range arithmetic", where,
					"every unsigned − and + in the end/start expressions is bounded by a dominating comparison", strings.Join(fails, "; "))
			}
			// every served certificate comes from that GetRange result
			var certW []Sink
			for _, cs := range callsTo(h, false, "certs.FinalityCertificate.MarshalCBOR") {
				certW = append(certW, Sink{cs.Instr, "certificate write"})
				r.Check(strings.Contains(cs.Arg(0), "certstore.Store.GetRange("), "C16.R1", "certexchange.Server.handleRequest: served certificates are GetRange results", p.c.InstrPos(cs.Instr),
					"certificate written = "+cs.Arg(0), "a certificate not taken from the GetRange result is written: "+cs.Arg(0))
			}
			hdrW := callSinks(h, "header write", "certexchange.ResponseHeader.MarshalCBOR")
			p.before("C16.R2", h, "header write", hdrW, "certificate write", certW)
		}
		// R2
		pts := callsTo(h, false, "certstore.Store.GetPowerTable")
		var ptS []Sink
		for _, cs := range pts {
			ptS = append(ptS, Sink{cs.Instr, "power table load"})
			r.Check(strings.HasSuffix(cs.Arg(2), ".FirstInstance"), "C16.R2", "certexchange.Server.handleRequest: power table taken at FirstInstance", p.c.InstrPos(cs.Instr),
				"instance argument "+cs.Arg(2), "power table loaded for "+cs.Arg(2)+" instead of the first requested instance")
		}
		for _, fs := range fieldStores(h, false, "ResponseHeader", "PowerTable") {
			ptS = append(ptS, Sink{fs.Store, "header.PowerTable set"})
			r.Check(strings.Contains(canon(fs.Store.Val), "certstore.Store.GetPowerTable("), "C16.R2", "certexchange.Server.handleRequest: header power table is the store's", p.c.InstrPos(fs.Store), canon(fs.Store.Val), "header power table is "+canon(fs.Store.Val))
		}
		if len(ptS) > 0 {
			p.guarded("C16.R2", h, ptS,
				canonIs("IncludePowerTable requested", `Request\.IncludePowerTable$`, avFalse),
				cmpRel("Pending ≥ First", `ResponseHeader\.PendingInstance$`, `Request\.FirstInstance$`, RelLT))
		} else {
			r.Undecided("C16.R2", "certexchange.Server.handleRequest: power table", "no GetPowerTable call found")
		}
	}

	// a gap in the store: GetRange returns the contiguous prefix together with ErrCertNotFound; the prefix is still served
	if h := p.fn("C16.R1", "certexchange.Server.handleRequest"); h != nil {
		wr := callSinks(h, "certificate written", "certs.FinalityCertificate.MarshalCBOR")
		if len(wr) > 0 {
			inj := errFails("", "certstore.Store.GetRange", "").with(callResult("", "errors.Is", `ErrCertNotFound`, -1, avTrue)).all(h)
			s := RunSCCP(h, inj)
			reach := false
			for _, w := range wr {
				if s.Reachable(w.Instr) {
					reach = true
				}
			}
			r.Check(reach, "C16.R1", "certexchange.Server.handleRequest: the stored prefix before a missing certificate is served", p.c.InstrPos(wr[0].Instr), "certificate write reachable when GetRange reports ErrCertNotFound", "when the range contains a missing certificate the server sends nothing although it advertises a later pending instance")
		}
	}

	// ---------------- R3 client
	if cl := p.fnWith("C16.R3", "certexchange.Client.Request", "certs.FinalityCertificate.UnmarshalCBOR"); cl != nil {
		var sends []Sink
		for _, b := range cl.Blocks {
			for _, in := range b.Instrs {
				switch x := in.(type) {
				case *ssa.Select:
					for _, st := range x.States {
						if st.Send != nil {
							sends = append(sends, Sink{x, "deliver certificate " + canon(st.Send)})
						}
					}
				case *ssa.Send:
					sends = append(sends, Sink{x, "deliver certificate " + canon(x.X)})
				}
			}
		}
		// the streaming goroutine outlives Request(): it must work on a private copy of the request, not on the
		// caller's *Request (whose fields the caller may change for the next page while the stream is drained)
		if par := cl.Parent(); par != nil {
			bad := ""
			for _, in := range instrsOf(par) {
				mc, ok := in.(*ssa.MakeClosure)
				if !ok || mc.Fn != cl {
					continue
				}
				for _, b := range mc.Bindings {
					var src ssa.Value = b
					if a, ok := b.(*ssa.Alloc); ok {
						if pv := spilledParam(a); pv != nil {
							src = pv
						}
					}
					if pr, ok := src.(*ssa.Parameter); ok && strings.HasSuffix(shortType(pr.Type()), "certexchange.Request") && strings.HasPrefix(shortType(pr.Type()), "*") {
						bad = "the receive goroutine captures the caller's request pointer " + pr.Name()
					}
				}
			}
			r.Check(bad == "", "C16.R3", "certexchange.Client.Request: the receive goroutine uses a private copy of the request", p.c.Pos(cl.Pos()), "no capture of the *Request parameter", bad+" — the sequence/limit checks would follow later modifications of the request object")
		}
		if len(sends) == 0 {
			r.Undecided("C16.R3", "certexchange.Client.Request: delivery", "no channel send found in the receive loop")
		} else {
			p.guarded("C16.R3", cl, sends,
				cmpRel("cert.Instance == First+i", `\.GPBFTInstance$`, `FirstInstance \+ `, RelNE),
				// classic loop (i < Limit tested at the top) or rotated range-over-int loop (0 < Limit on entry, i+1 < Limit on the back edge)
				union(cmpRel("", `^phi\(`, `\.Limit$`, RelEQ), cmpRel("", `^\(phi\(.*\) \+ 1\)$`, `\.Limit$`, RelEQ), cmpRel("", `^0$`, `\.Limit$`, RelEQ)).named("i < Limit"),
				canonIs("decode ok", `^certs\.FinalityCertificate\.UnmarshalCBOR\(`, avNonNil))
			dec := callSinks(cl, "decode", "certs.FinalityCertificate.UnmarshalCBOR")
			var resets []Sink
			for _, fs := range fieldStores(cl, false, "LimitedReader", "N") {
				resets = append(resets, Sink{fs.Store, "reader limit reset"})
			}
			p.before("C16.R3", cl, "reader limit reset", resets, "decode", dec)
			for _, s := range resets {
				r.Check(inLoop(s.Instr), "C16.R3", "certexchange.Client.Request: limit reset on every iteration", p.c.InstrPos(s.Instr), "inside the receive loop", "limit reset is outside the loop")
			}
		}
	}

	// ---------------- R4 poller
	if poll := p.fn("C16.R4", "certexchange/polling.Poller.Poll"); poll != nil {
		puts := callSinks(poll, "store", "certstore.Store.Put")
		vals := callsTo(poll, false, "certs.ValidateFinalityCertificates")
		if len(vals) != 1 {
			r.Undecided("C16.R4", "polling.Poller.Poll: validation call", fmt.Sprintf("expected one ValidateFinalityCertificates call, found %d", len(vals)))
		} else {
			v := vals[0]
			a := v.ArgValues()
			want := []struct{ i int; rx, what string }{
				{2, `^\$0\.PowerTable$`, "previous power table = poller's current table"},
				{3, `^\$0\.NextInstance$`, "next instance = poller's next instance"},
				{4, `^nil$`, "no base override"},
			}
			for _, w := range want {
				r.Check(re(w.rx).MatchString(canon(a[w.i])), "C16.R4", "polling.Poller.Poll: validation argument: "+w.what, p.c.InstrPos(v.Instr), canon(a[w.i]), "argument is "+canon(a[w.i]))
			}
			p.guarded("C16.R4", poll, puts, errFails("certificate validates", "certs.ValidateFinalityCertificates", ""))
			// validated cert is the stored cert
			for _, pc := range callsTo(poll, false, "certstore.Store.Put") {
				r.Check(strings.Contains(canon(a[5]), pc.Arg(2)), "C16.R4", "polling.Poller.Poll: the stored certificate is the validated one", p.c.InstrPos(pc.Instr), pc.Arg(2), "stores "+pc.Arg(2)+" but validates "+canon(a[5]))
			}
			vc := canon(v.Value())
			for _, f := range []struct{ field string; idx string }{{"NextInstance", "#0"}, {"PowerTable", "#2"}} {
				sts := fieldStores(poll, false, "Poller", f.field)
				if len(sts) == 0 {
					r.Undecided("C16.R4", "polling.Poller.Poll: advance "+f.field, "no store found")
				}
				for _, fs := range sts {
					r.Check(canon(fs.Store.Val) == vc+f.idx, "C16.R4", "polling.Poller.Poll: "+f.field+" advances to the validator's output", p.c.InstrPos(fs.Store), canon(fs.Store.Val), f.field+" set to "+canon(fs.Store.Val)+", not the validated value")
					p.guarded("C16.R4", poll, []Sink{{fs.Store, "advance " + f.field}}, errFails("certificate validates", "certs.ValidateFinalityCertificates", ""))
				}
			}
			// the power table advances whenever the next instance does
			nis, pts := fieldStores(poll, false, "Poller", "NextInstance"), fieldStores(poll, false, "Poller", "PowerTable")
			for _, ni := range nis {
				together := false
				for _, pt := range pts {
					if pt.Store.Block() == ni.Store.Block() || dominates(pt.Store, ni.Store) {
						together = true
					}
				}
				r.Check(together, "C16.R4", "polling.Poller.Poll: power table advances together with the next instance", p.c.InstrPos(ni.Store), "PowerTable store in the same block / dominating", "NextInstance can advance on a path where PowerTable is not updated — later certificates would be validated against a stale table")
			}
			// the advance does not depend on who stored the certificate: when the local store already holds it
			// (GPBFT finished the instance meanwhile) the poller still moves on to the next instance
			for _, rel := range []Rel{RelLT, RelEQ} {
				inj2 := canonIs("", `^certstore\.Store\.Latest\(\$0\.Store\)$`, avNonNil).with(cmpRel("", `^<-.*\.GPBFTInstance$`, `^certstore\.Store\.Latest\(\$0\.Store\)\.GPBFTInstance$`, rel)).all(poll)
				s2 := RunSCCP(poll, inj2)
				for _, f := range []string{"NextInstance", "PowerTable"} {
					reach := false
					for _, fs := range fieldStores(poll, false, "Poller", f) {
						if s2.Reachable(fs.Store) {
							reach = true
						}
					}
					relName := map[Rel]string{RelLT: "older than", RelEQ: "equal to"}[rel]
					r.Check(reach, "C16.R4", "polling.Poller.Poll: "+f+" advances past a validated certificate "+relName+" the store's latest", p.c.Pos(poll.Pos()), "advance reachable", f+" is only advanced when the poller stores the certificate itself — a certificate finalized locally in the meantime stalls the poller and brands an honest peer illegal")
				}
			}
			// illegal classification on failure
			inj := errFails("fail", "certs.ValidateFinalityCertificates", "").Match(poll)
			s := RunSCCP(poll, inj)
			found := false
			for _, fs := range fieldStores(poll, false, "PollResult", "Status") {
				if strings.HasSuffix(canon(fs.Store.Val), ":PollStatus") && canon(fs.Store.Val) == fmt.Sprintf("%d:PollStatus", p.constValue("certexchange/polling", "PollIllegal")) && s.Reachable(fs.Store) {
					// and it must be in a block only reachable on failure
					s2 := RunSCCP(poll, map[ssa.Value]AV{})
					_ = s2
					found = true
				}
			}
			r.Check(found, "C16.R4", "polling.Poller.Poll: validation failure classifies the peer as illegal", p.c.Pos(poll.Pos()), "Status = PollIllegal on the failing edge", "no Status = PollIllegal store on the validation-failure path")
		}
	}
	// invariant of the poller: PowerTable is the store's table FOR NextInstance. Wherever NextInstance is set from the
	// store (construction, CatchUp) the table is loaded for that very instance, unconditionally.
	for _, name := range []string{"certexchange/polling.NewPoller", "certexchange/polling.Poller.CatchUp"} {
		fn := p.fn("C16.R4", name)
		if fn == nil {
			continue
		}
		nis, pts := fieldStores(fn, false, "Poller", "NextInstance"), fieldStores(fn, false, "Poller", "PowerTable")
		if len(nis) == 0 || len(pts) == 0 {
			r.Undecided("C16.R4", name+": NextInstance/PowerTable pair", fmt.Sprintf("stores not found (%d/%d)", len(nis), len(pts)))
			continue
		}
		for _, ni := range nis {
			ok, why := false, "no PowerTable store"
			for _, pt := range pts {
				ex, _ := pt.Store.Val.(*ssa.Extract)
				var call *ssa.Call
				if ex != nil {
					call, _ = ex.Tuple.(*ssa.Call)
				}
				if call == nil || call.Call.StaticCallee() == nil || funcName(call.Call.StaticCallee()) != "certstore.Store.GetPowerTable" || len(call.Call.Args) < 3 {
					why = "PowerTable is " + canon(pt.Store.Val)
					continue
				}
				same := call.Call.Args[2] == ni.Store.Val || canon(call.Call.Args[2]) == canon(ni.Store.Val)
				together := pt.Store.Block() == ni.Store.Block() || dominates(pt.Store, ni.Store)
				switch {
				case !same:
					why = "table loaded for instance " + canon(call.Call.Args[2]) + " but NextInstance is " + canon(ni.Store.Val)
				case !together:
					why = "NextInstance can be set on a path where the table is not reloaded"
				default:
					ok = true
				}
			}
			r.Check(ok, "C16.R4", name+": PowerTable := store table for the very instance NextInstance is set to, on every path", p.c.InstrPos(ni.Store), "GetPowerTable(NextInstance)", why+" — later certificates would be validated against a stale power table (a forged certificate signed by a rotated-out key is stored; honest peers are branded illegal)")
		}
	}
	if np := p.fn("C16.R4", "certexchange/polling.NewPoller"); np != nil {
		for _, fs := range fieldStores(np, false, "Poller", "NextInstance") {
			alts := splitAlternatives(canon(fs.Store.Val))
			ok := len(alts) == 2
			for _, a := range alts {
				if a != "0" && a != "(certstore.Store.Latest($2).GPBFTInstance + 1)" {
					ok = false
				}
			}
			r.Check(ok, "C16.R4", "polling.NewPoller: NextInstance = store latest + 1 (0 for an empty store)", p.c.InstrPos(fs.Store), strings.Join(alts, " | "), "NextInstance starts at "+strings.Join(alts, " | ")+" — after a restart the first catch-up reports progress the store never made")
		}
	}
	if cu := p.fn("C16.R4", "certexchange/polling.Poller.CatchUp"); cu != nil {
		for _, fs := range fieldStores(cu, false, "Poller", "NextInstance") {
			r.Check(strings.Contains(canon(fs.Store.Val), "certstore.Store.Latest(") && strings.Contains(canon(fs.Store.Val), "+ 1"), "C16.R4", "polling.Poller.CatchUp: NextInstance = store latest + 1", p.c.InstrPos(fs.Store), canon(fs.Store.Val), "NextInstance set to "+canon(fs.Store.Val))
		}
		for _, fs := range fieldStores(cu, false, "Poller", "PowerTable") {
			r.Check(strings.Contains(canon(fs.Store.Val), "certstore.Store.GetPowerTable("), "C16.R4", "polling.Poller.CatchUp: PowerTable from the store", p.c.InstrPos(fs.Store), canon(fs.Store.Val), "PowerTable set to "+canon(fs.Store.Val))
		}
	}
}

// constValue returns the integer value of a package-level constant (0 if missing → rules using it fail).
func (p *P) constValue(pkgShort, name string) int64 {
	pk := p.c.Pkg(pkgShort)
	if pk == nil || pk.Types == nil {
		return 0
	}
	return constInt(pk.Types.Scope().Lookup(name))
}

func constInt(obj types.Object) int64 {
	c, ok := obj.(*types.Const)
	if !ok {
		return 0
	}
	v, _ := constant.Int64Val(constant.ToInt(c.Val()))
	return v
}
