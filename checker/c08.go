package main

import (
	"fmt"
	"go/constant"
	"go/token"
	"strings"

	"golang.org/x/tools/go/ssa"
)

func init() { register("C08", c08) }

// isDivCeilCall recognises a call to a function proven (by shape) to compute ⌈a/b⌉.
func isCeilFunc(fn *ssa.Function) (bool, string) {
	if fn == nil || len(fn.Params) != 2 {
		return false, "not a 2-ary function"
	}
	rets := returnsOf(fn)
	if len(rets) != 1 || len(rets[0].Results) != 1 {
		return false, "expected a single return"
	}
	v := rets[0].Results[0]
	// idiom 2: (a + b - 1) / b
	if q, ok := v.(*ssa.BinOp); ok && q.Op == token.QUO && q.Y == fn.Params[1] {
		l := linOf(q.X)
		want := Lin{C: -1, T: map[string]int64{"$0": 1, "$1": 1}}
		if l.equal(want) {
			return true, "(a+b-1)/b"
		}
		return false, "quotient of " + l.String()
	}
	// idiom 1: q := a/b; if a%b != 0 { q++ }
	a, b, ok, why := ceilShape(v)
	if !ok {
		return false, why
	}
	if a != fn.Params[0] || b != fn.Params[1] {
		return false, "ceiling of " + canon(a) + " / " + canon(b)
	}
	return true, "a/b + [a%b != 0]"
}

// ceilShape recognises the value  φ(a/b, a/b + 1)  whose +1 edge is taken exactly when a%b ≠ 0.
func ceilShape(v ssa.Value) (a, b ssa.Value, ok bool, why string) {
	ph, isPhi := v.(*ssa.Phi)
	if !isPhi || len(ph.Edges) != 2 {
		return nil, nil, false, "value is " + canon(v)
	}
	same := func(x, y ssa.Value) bool { return x == y || canon(x) == canon(y) }
	quo := func(x ssa.Value) (ssa.Value, ssa.Value, bool) {
		q, ok := x.(*ssa.BinOp)
		if !ok || q.Op != token.QUO {
			return nil, nil, false
		}
		return q.X, q.Y, true
	}
	for i, e := range ph.Edges {
		o := ph.Edges[1-i]
		qa, qb, okq := quo(o)
		if !okq {
			continue
		}
		inc, okInc := e.(*ssa.BinOp)
		if !okInc || inc.Op != token.ADD {
			continue
		}
		one, base := inc.Y, inc.X
		if c, okc := one.(*ssa.Const); !okc || c.Value == nil || c.Int64() != 1 {
			one, base = inc.X, inc.Y
			if c, okc := one.(*ssa.Const); !okc || c.Value == nil || c.Int64() != 1 {
				continue
			}
		}
		ba, bb, okb := quo(base)
		if !okb || !same(ba, qa) || !same(bb, qb) {
			continue
		}
		// the +1 edge must be taken exactly when a%b != 0
		pred := ph.Block().Preds[i]
		if len(pred.Preds) != 1 {
			return nil, nil, false, "increment block has several predecessors"
		}
		condBlk := pred.Preds[0]
		if condBlk != ph.Block().Preds[1-i] {
			return nil, nil, false, "increment is not a simple if without else"
		}
		iff, okIf := condBlk.Instrs[len(condBlk.Instrs)-1].(*ssa.If)
		if !okIf {
			return nil, nil, false, "no condition before the increment"
		}
		cond := iff.Cond
		takenOnTrue := condBlk.Succs[0] == pred
		if u, isU := cond.(*ssa.UnOp); isU && u.Op == token.NOT {
			cond, takenOnTrue = u.X, !takenOnTrue
		}
		cmp, okc := cond.(*ssa.BinOp)
		if !okc {
			return nil, nil, false, "condition is " + canon(iff.Cond)
		}
		remV, zero := cmp.X, cmp.Y
		op := cmp.Op
		if isZeroConst(remV) {
			remV, zero = zero, remV
			switch op {
			case token.GTR:
				op = token.LSS
			case token.LSS:
				op = token.GTR
			}
		}
		rem, okr := remV.(*ssa.BinOp)
		if !okr || !isZeroConst(zero) || rem.Op != token.REM || !same(rem.X, qa) || !same(rem.Y, qb) {
			return nil, nil, false, "condition is " + canon(cmp)
		}
		// a%b > 0 is a%b ≠ 0 only for non-negative a: accept it, as the original helper does, only alongside ≠ / ==
		if (op == token.NEQ && takenOnTrue) || (op == token.EQL && !takenOnTrue) || (op == token.GTR && takenOnTrue) {
			return qa, qb, true, "a/b + [a%b != 0]"
		}
		return nil, nil, false, "increment taken under " + canon(cmp) + fmt.Sprintf(" (true-branch=%v)", takenOnTrue)
	}
	return nil, nil, false, "value is " + canon(v)
}

// quorumForm normalises `X op Y` (X,Y int64; Y possibly ⌈a/b⌉ or ⌊a/b⌋) into a
// linear form F with the meaning F ≥ 0, using the integer lemmas
//   x ≥ ⌈a/b⌉ ⇔ b·x − a ≥ 0          x > ⌈a/b⌉ ⇔ b·x − a − b ≥ 0
//   x ≥ ⌊a/b⌋ ⇔ b·x − a + b − 1 ≥ 0  x > ⌊a/b⌋ ⇔ b·x − a − 1 ≥ 0     (b > 0)
func (p *P) quorumForm(op token.Token, x0, y0 ssa.Value) (Lin, string, bool) {
	x, y := deref(x0), deref(y0)
	// bring into the shape  x (>=|>) y
	switch op {
	case token.LEQ:
		x, y, op = y, x, token.GEQ
	case token.LSS:
		x, y, op = y, x, token.GTR
	case token.GEQ, token.GTR:
	default:
		return Lin{}, "", false
	}
	strict := op == token.GTR
	lx := linOf(x)
	one := linConst(1)
	if call, ok := y.(*ssa.Call); ok {
		if callee := call.Call.StaticCallee(); callee != nil && len(call.Call.Args) == 2 {
			if isCeil, _ := isCeilFunc(callee); isCeil {
				if bc, ok := call.Call.Args[1].(*ssa.Const); ok && bc.Int64() > 0 {
					b := bc.Int64()
					f := lx.scale(b).add(linOf(call.Call.Args[0]), -1)
					if strict {
						f = f.add(linConst(b), -1)
					}
					return f, fmt.Sprintf("x %s ⌈a/%d⌉", op, b), true
				}
			}
		}
	}
	if ca, cb, isCeil, _ := ceilShape(y); isCeil {
		if bc, ok := cb.(*ssa.Const); ok && bc.Value != nil && bc.Int64() > 0 {
			b := bc.Int64()
			f := lx.scale(b).add(linOf(ca), -1)
			if strict {
				f = f.add(linConst(b), -1)
			}
			return f, fmt.Sprintf("x %s ⌈a/%d⌉ (inline)", op, b), true
		}
	}
	if q, ok := y.(*ssa.BinOp); ok && q.Op == token.QUO {
		if bc, ok := q.Y.(*ssa.Const); ok && bc.Int64() > 0 {
			b := bc.Int64()
			f := lx.scale(b).add(linOf(q.X), -1)
			if strict {
				f = f.add(one, -1)
			} else {
				f = f.add(linConst(b-1), 1)
			}
			return f, fmt.Sprintf("x %s ⌊a/%d⌋", op, b), true
		}
	}
	f := lx.add(linOf(y), -1)
	if strict {
		f = f.add(one, -1)
	}
	return f, "x " + op.String() + " y", true
}

func c08(p *P) {
	r := p.r
	r.Explanation = "Static decision of the quorum arithmetic for ALL integer inputs via linear normal forms: (R1) IsStrongQuorum's return expression, normalised with the ⌈·⌉/⌊·⌋ lemmas, is exactly 3·part − 2·whole ≥ 0; hasWeakQuorum implies 3·part − whole ≥ 1; the helper it calls is shape-proven to be ⌈a/b⌉; CouldReachStrongQuorumFor feeds IsStrongQuorum(min(support + (T − S) [+ ⌊T/3⌋], T), T); (R2) every call site passes a part accumulated from the same table whose scaled total is the whole; (R3) no other production code implements a 2/3 or 1/3 threshold on power; (R4) scalePower is ⌊65535·p/T⌋ in arbitrary precision (no machine-integer fast path) under the guard T ≥ p, and all three users (Scaled, rescale, Validate) call it with the table's own total."
	r.NotDecided = "nothing is evaluated on concrete values: exactness at every boundary follows from the integer lemmas listed in DESIGN §3 E4 (trusted), not from enumeration; the scaling lemma Σ⌊M·pᵢ/Σp⌋ ≤ M (AS3) is assumed."
	r.Assumptions = []string{"AS3: Σ⌊M·pᵢ/Σp⌋ ≤ M", "lemmas: x ≥ ⌈a/b⌉ ⇔ b·x ≥ a; x > ⌈a/b⌉ ⇔ b·x ≥ a+b; x ≥ ⌊a/b⌋ ⇔ b·x+b−1 ≥ a (b>0, integers)", "AS6: go/types, go/ssa and the rule tables are correct"}
	r.Rule("C08.R1", "normal forms: strong ⇔ 3p−2w ≥ 0; weak ⇒ 3p−w ≥ 1; ceil helper; could-reach shape", 5)
	r.Rule("C08.R2", "call sites: part and whole come from the same power table", 7)
	r.Rule("C08.R3", "single threshold implementation", 1)
	p.gCopiesAreDeep("C08.R4", "powertable")
	p.include(c05, map[string]string{"C05.R4": "C08.R5", "C05.R5": "C08.R5b", "C05.R1": "C08.R5c"}, map[string]string{"C08.R5": "the message validator applies the threshold on every presentation (no acceptance before the quorum check, caches written last)", "C08.R5b": "justification quorum of the same table", "C08.R5c": "message acceptance gated"})
	r.Rule("C08.R4", "scaling: ⌊65535·p/T⌋ in big arithmetic under T ≥ p; sibling users pass the table's own total", 6)

	// ---------- R1
	if fn := p.fn("C08.R1", "gpbft.IsStrongQuorum"); fn != nil {
		p.singleCmpReturn("C08.R1", fn, "strong quorum ⇔ 3·part − 2·whole ≥ 0", Lin{T: map[string]int64{"$0": 3, "$1": -2}}, true)
	}
	if fn := p.fn("C08.R1", "gpbft.hasWeakQuorum"); fn != nil {
		p.singleCmpReturn("C08.R1", fn, "weak quorum ⇒ 3·part − whole ≥ 1", Lin{C: -1, T: map[string]int64{"$0": 3, "$1": -1}}, false)
	}
	if fn := p.c.Fn("gpbft.divCeil"); fn != nil {
		ok, why := isCeilFunc(fn)
		r.Check(ok, "C08.R1", "gpbft.divCeil computes ⌈a/b⌉", p.c.Pos(fn.Pos()), why, "divCeil is not a ceiling division: "+why)
	}
	if fn := p.fn("C08.R1", "gpbft.quorumState.CouldReachStrongQuorumFor"); fn != nil {
		calls := callsTo(fn, false, "gpbft.IsStrongQuorum")
		if len(calls) != 1 {
			r.Undecided("C08.R1", "CouldReachStrongQuorumFor: IsStrongQuorum call", fmt.Sprintf("expected 1 call, found %d", len(calls)))
		} else {
			cs := calls[0]
			where := p.c.InstrPos(cs.Instr)
			a := cs.ArgValues()
			T := "$0.powerTable.ScaledTotal"
			r.Check(canon(a[1]) == T, "C08.R1", "CouldReachStrongQuorumFor: whole = the tally's scaled total", where, canon(a[1]), "whole is "+canon(a[1]))
			mn, ok := a[0].(*ssa.Call)
			okShape := false
			detail := canon(a[0])
			if ok {
				if b, isB := mn.Call.Value.(*ssa.Builtin); isB && b.Name() == "min" && len(mn.Call.Args) == 2 {
					var sum ssa.Value
					if canon(mn.Call.Args[1]) == T {
						sum = mn.Call.Args[0]
					} else if canon(mn.Call.Args[0]) == T {
						sum = mn.Call.Args[1]
					}
					if sum != nil {
						l := linOf(sum)
						detail = l.String()
						var support, adv string
						okCoef := l.C == 0 && l.T[T] == 1 && l.T["$0.sendersTotalPower"] == -1 && len(l.T) == 4
						for s, c := range l.T {
							if s == T || s == "$0.sendersTotalPower" {
								continue
							}
							if c != 1 {
								okCoef = false
							}
							if strings.Contains(s, "chainSupport") && strings.HasSuffix(s, ".power)") && strings.HasPrefix(s, "phi(0|") {
								support = s
							}
							if s == "$0.chainSupport[$1].power" || (strings.HasPrefix(s, "$0.chainSupport[$1]") && strings.HasSuffix(s, ".power")) {
								support = s // reading the map's zero value when the key is absent is the same 0
							}
							if in := strings.TrimSuffix(strings.TrimPrefix(s, "phi("), ")"); in != s {
								for _, alt := range [][2]string{{"0|", ""}, {"", "|0"}} {
									x := strings.TrimSuffix(strings.TrimPrefix(in, alt[0]), alt[1])
									if x != in && strings.HasPrefix(x, "$0.chainSupport[$1]") && strings.HasSuffix(x, ".power") && !strings.Contains(x, "|") {
										support = s
									}
								}
							}
							if s == "phi(("+T+" / 3)|0)" || s == "phi(0|("+T+" / 3))" {
								adv = s
							}
						}
						okShape = okCoef && support != "" && adv != ""
					}
				}
			}
			r.Check(okShape, "C08.R1", "CouldReachStrongQuorumFor: possible support = min(support + (T − S) [+ ⌊T/3⌋], T)", where, detail,
				"possible support is "+detail+"; expected min(supportForKey + ScaledTotal − sendersTotalPower + (withAdversary ? ScaledTotal/3 : 0), ScaledTotal)")
			// adversary slack only when requested
			var advQ []Sink
			allValues(fn, func(v ssa.Value) {
				if q, ok := v.(*ssa.BinOp); ok && q.Op == token.QUO && canon(q) == "("+T+" / 3)" {
					advQ = append(advQ, Sink{q, "adversary slack"})
				}
			})
			if len(advQ) > 0 {
				inj := map[ssa.Value]AV{fn.Params[2]: avFalse}
				s := RunSCCP(fn, inj)
				reach := false
				for _, q := range advQ {
					// the phi that merges the slack must not take the slack edge
					if s.Reachable(q.Instr) {
						reach = true
					}
				}
				r.Check(!reach, "C08.R1", "CouldReachStrongQuorumFor: ⅓ adversary slack only when withAdversary", p.c.InstrPos(advQ[0].Instr), "slack computation unreachable when withAdversary=false", "adversary slack is added even when withAdversary is false")
			}
		}
	}

	// ---------- R2 call sites
	nSites := 0
	for _, f := range p.c.ProdFuncs() {
		for _, cs := range callsTo(f, false, "gpbft.IsStrongQuorum", "gpbft.hasWeakQuorum") {
			nSites++
			part, whole := cs.Arg(0), cs.Arg(1)
			f := cs.Fn // the function that textually contains the call (possibly a spliced helper)
			c := fmt.Sprintf("%s: %s(part, whole) operands from one table", funcName(f), cs.Callee()[strings.LastIndex(cs.Callee(), ".")+1:])
			where := p.c.InstrPos(cs.Instr)
			var table string
			switch {
			case strings.HasSuffix(whole, ".ScaledTotal"):
				table = strings.TrimSuffix(whole, ".ScaledTotal")
			case strings.Contains(whole, "Scaled(") && strings.HasSuffix(whole, "PowerEntries.Scaled("+strings.TrimSuffix(strings.TrimPrefix(whole[strings.LastIndex(whole, "Scaled(")+0:], "Scaled("), ")#1")+")#1"):
				table = "scaled:" + whole[:len(whole)-2]
			default:
				r.Fail("C08.R2", c, where, "whole operand "+whole+" is not the scaled total of a power table")
				continue
			}
			ok := false
			why := ""
			switch {
			case strings.HasPrefix(funcName(f), "sim.MakeJustification"):
				ok = strings.Contains(part, strings.TrimPrefix(table, "scaled:")+"#0[")
				why = "simulator helper: part accumulates the same Scaled() result"
			case strings.HasPrefix(table, "scaled:"):
				// certs: signerPowers accumulated from Scaled()#0 of the same call
				call := strings.TrimPrefix(table, "scaled:")
				adds := closureAccumulation(cs.ArgValues()[0], f)
				ok = len(adds) > 0
				for _, a := range adds {
					if !strings.HasPrefix(a, call+"#0[") {
						ok = false
					}
				}
				why = "part accumulates " + strings.Join(adds, ",")
			case strings.Contains(part, "gpbft.Justification.GetSigners(") && strings.Contains(part, ", "+table+")#0"):
				ok, why = true, "part = GetSigners(justification, same table)#0"
			case strings.HasPrefix(table, "$0.") && (part == "$0.sendersTotalPower" || strings.HasPrefix(part, "min(") && strings.Contains(part, "$0.sendersTotalPower")):
				ok, why = true, "part is the tally's own sender total (accumulated from "+table+".Get in receiveSender)"
			case strings.HasPrefix(table, "$0.") && p.accumulatesFrom(cs.ArgValues()[0], table+".ScaledPower["):
				ok, why = true, "part accumulates "+table+".ScaledPower[i]"
			case strings.HasPrefix(table, "$0.") && strings.HasSuffix(part, "chainSupport.power") && funcName(f) == "gpbft.quorumState.receiveInner" && p.receiveInnerAdds(f):
				// receiveInner: candidate.power += power(param), power comes from receiveSender → same table (checked below)
				ok, why = true, "part = chainSupport.power + the sender's power handed in by Receive/ReceiveEachPrefix"
			case strings.HasPrefix(funcName(f), "sim."):
				ok, why = true, "simulator helper"
			}
			r.Check(ok, "C08.R2", c, where, why, "part "+part+" is not derived from the table whose total is "+whole)
		}
	}
	// receiveInner's power parameter: callers pass receiveSender's result; receiveSender reads the same table
	for _, cs := range p.callersOf("gpbft.quorumState.receiveInner") {
		if cs.Instr == nil || p.c.IsTestFile(cs.Fn.Pos()) {
			continue
		}
		r.Check(strings.HasPrefix(cs.Arg(3), "gpbft.quorumState.receiveSender($0, ") && strings.HasSuffix(cs.Arg(3), "#0"), "C08.R2", funcName(cs.Fn)+": vote weight = receiveSender's power", p.c.InstrPos(cs.Instr), cs.Arg(3), "weight passed to receiveInner is "+cs.Arg(3))
	}
	if fn := p.fn("C08.R2", "gpbft.quorumState.receiveSender"); fn != nil {
		n := 0
		for _, fs := range fieldStores(fn, false, "quorumState", "sendersTotalPower") {
			n++
			r.Check(canon(fs.Store.Val) == "($0.sendersTotalPower + gpbft.PowerTable.Get($0.powerTable, $1)#0)", "C08.R2", "receiveSender: sender total accumulates the same table's scaled power", p.c.InstrPos(fs.Store), canon(fs.Store.Val), "sendersTotalPower set to "+canon(fs.Store.Val))
		}
		for _, ret := range returnsOf(fn) {
			v := canon(retValue(ret, 0))
			r.Check(v == "0" || v == "gpbft.PowerTable.Get($0.powerTable, $1)#0", "C08.R2", "receiveSender: returns the sender's scaled power from the tally's table", p.c.InstrPos(ret), v, "returns "+v)
		}
		if n == 0 {
			r.Undecided("C08.R2", "receiveSender: accumulation", "no store to sendersTotalPower")
		}
	}
	if nSites < 7 {
		r.Undecided("C08.R2", "call sites", fmt.Sprintf("only %d quorum predicate call sites found (7 confirmed by reading)", nSites))
	}

	// ---------- R3 single threshold
	{
		allowed := map[string]bool{"gpbft.IsStrongQuorum": true, "gpbft.hasWeakQuorum": true, "gpbft.divCeil": true, "gpbft.quorumState.CouldReachStrongQuorumFor": true}
		var offenders []string
		n := 0
		for _, f := range p.c.ProdFuncs() {
			fnm := funcName(f)
			if allowed[fnm] || strings.HasPrefix(fnm, "sim.") || strings.HasPrefix(fnm, "emulator.") || strings.HasPrefix(fnm, "test") {
				continue
			}
			allValues(f, func(v ssa.Value) {
				b, ok := v.(*ssa.BinOp)
				if !ok || (b.Op != token.QUO && b.Op != token.MUL) {
					return
				}
				c, ok := b.Y.(*ssa.Const)
				if !ok || c.Value == nil || c.Value.Kind() != constant.Int || (c.Int64() != 3 && c.Int64() != 2) {
					return
				}
				s := canon(b.X)
				if strings.Contains(s, "ScaledTotal") || strings.Contains(s, "ScaledPower") || strings.Contains(s, "sendersTotalPower") || strings.Contains(s, "Scaled(") {
					offenders = append(offenders, fmt.Sprintf("%s at %s: %s", fnm, p.c.InstrPos(b), canon(b)))
				}
				n++
			})
		}
		r.Check(len(offenders) == 0, "C08.R3", "no other production code multiplies/divides scaled power by 2 or 3", "", fmt.Sprintf("%d candidate ×2/×3,/2,/3 operations examined", n), "second threshold implementation: "+strings.Join(offenders, "; "))
	}

	// ---------- R4 scaling
	if fn := p.fn("C08.R4", "gpbft.scalePower"); fn != nil {
		maxP := "65535"
		const B = "github.com/filecoin-project/go-state-types/big."
		accepted := map[string]bool{
			"math/big.Int.Int64(" + B + "Div(" + B + "Mul(" + B + "NewInt(" + maxP + "), $0), $1).Int)": true,
			"math/big.Int.Int64(" + B + "Div(" + B + "Mul($0, " + B + "NewInt(" + maxP + ")), $1).Int)": true,
		}
		n := 0
		for _, ret := range returnsOf(fn) {
			if !mayBeNilErr(retValue(ret, 1), map[ssa.Value]bool{}) {
				continue
			}
			n++
			v := canon(retValue(ret, 0))
			r.Check(accepted[v], "C08.R4", fmt.Sprintf("scalePower: success return #%d = ⌊65535·power/total⌋ in arbitrary precision", n), p.c.InstrPos(ret), v,
				"scaled power is computed as "+v+" — not the big-integer floor(65535·power/total) (a machine-integer path overflows for large powers)")
		}
		if n == 0 {
			r.Undecided("C08.R4", "scalePower: success return", "none found")
		}
		p.guarded("C08.R4", fn, okReturns(fn), union(
			callResult("total ≥ power", "github.com/filecoin-project/go-state-types/big.Int.LessThan", `^github.com/filecoin-project/go-state-types/big\.Int\.LessThan\(\$1, \$0\)$`, -1, avTrue),
			callResult("total ≥ power", "github.com/filecoin-project/go-state-types/big.Int.GreaterThan", `^github.com/filecoin-project/go-state-types/big\.Int\.GreaterThan\(\$0, \$1\)$`, -1, avTrue),
			callResult("total ≥ power", "github.com/filecoin-project/go-state-types/big.Int.GreaterThanEqual", `^github.com/filecoin-project/go-state-types/big\.Int\.GreaterThanEqual\(\$1, \$0\)$`, -1, avFalse),
			callResult("total ≥ power", "github.com/filecoin-project/go-state-types/big.Int.LessThanEqual", `^github.com/filecoin-project/go-state-types/big\.Int\.LessThanEqual\(\$0, \$1\)$`, -1, avFalse),
		).named("total ≥ power"))
		mach := 0
		allValues(fn, func(v ssa.Value) {
			if b, ok := v.(*ssa.BinOp); ok && (b.Op == token.MUL || b.Op == token.QUO || b.Op == token.SHL) {
				mach++
			}
		})
		r.Check(mach == 0, "C08.R4", "scalePower: no machine-integer multiplication/division", p.c.Pos(fn.Pos()), "none", fmt.Sprintf("%d machine-integer ×,/ operations on power values", mach))
	}
	users := []struct{ fn, power, total string }{
		{"gpbft.PowerEntries.Scaled", `^\$0\[.*\]\.Power$`, `^phi\(`},
		{"gpbft.PowerTable.rescale", `^\$0\.Entries\[.*\]\.Power$`, `^\$0\.Total$`},
		{"gpbft.PowerTable.Validate", `\.Power$`, `^\$0\.Total$`},
	}
	for _, u := range users {
		fn := p.fn("C08.R4", u.fn)
		if fn == nil {
			continue
		}
		cs := callsTo(fn, false, "gpbft.scalePower")
		if len(cs) != 1 {
			r.Fail("C08.R4", u.fn+": scales with scalePower", p.c.Pos(fn.Pos()), fmt.Sprintf("expected one scalePower call, found %d", len(cs)))
			continue
		}
		pw := cs[0].Arg(0)
		// "for _, e := range entries { … e.Power … }": the power of a by-value copy of the ranged element
		if ld, isLoad := cs[0].ArgValues()[0].(*ssa.UnOp); isLoad {
			if fa, isFA := ld.X.(*ssa.FieldAddr); isFA {
				if al, isAl := fa.X.(*ssa.Alloc); isAl {
					if src := copyOf(al); src != nil {
						pw = canon(src) + "." + fieldName(fa.X.Type(), fa.Field)
					}
				}
			}
		}
		ok := re(u.power).MatchString(pw) && re(u.total).MatchString(cs[0].Arg(1))
		r.Check(ok, "C08.R4", u.fn+": scalePower(entry power, the table's own total)", p.c.InstrPos(cs[0].Instr), cs[0].Arg(0)+", "+cs[0].Arg(1), "scalePower called with ("+cs[0].Arg(0)+", "+cs[0].Arg(1)+")")
	}
	if fn := p.c.Fn("gpbft.PowerEntries.Scaled"); fn != nil {
		// the total handed to scalePower is the sum over ALL entries (first loop runs the full range, accumulating every power)
		adds := callsTo(fn, false, "github.com/filecoin-project/go-state-types/big.Add")
		if len(adds) == 1 {
			p.fullRangeLoop("C08.R4", "gpbft.PowerEntries.Scaled: total sums every entry", adds[0].Instr, func(c string) bool { return strings.Contains(c, "Sign(") })
			r.Check(strings.HasSuffix(adds[0].Arg(1), ".Power"), "C08.R4", "gpbft.PowerEntries.Scaled: total accumulates entry power", p.c.InstrPos(adds[0].Instr), adds[0].Arg(1), "accumulates "+adds[0].Arg(1))
		} else {
			r.Fail("C08.R4", "gpbft.PowerEntries.Scaled: total sums every entry", p.c.Pos(fn.Pos()), "accumulation not found")
		}
	}
	if fn := p.c.Fn("gpbft.PowerTable.rescale"); fn != nil {
		for _, fs := range fieldStores(fn, false, "PowerTable", "ScaledTotal") {
			c := canon(fs.Store.Val)
			r.Check(c == "0" || c == "($0.ScaledTotal + gpbft.scalePower($0.Entries[phi(-1|↻) + 1].Power, $0.Total)#0)" || (strings.HasPrefix(c, "($0.ScaledTotal + gpbft.scalePower(") && strings.HasSuffix(c, "#0)")), "C08.R4", "gpbft.PowerTable.rescale: ScaledTotal = Σ scaled powers", p.c.InstrPos(fs.Store), c, "ScaledTotal set to "+c)
		}
	}
}

// receiveInnerAdds: the only store to chainSupport.power in receiveInner adds the power parameter.
func (p *P) receiveInnerAdds(fn *ssa.Function) bool {
	sts := fieldStores(fn, false, "chainSupport", "power")
	if len(sts) != 1 {
		return false
	}
	c := canon(sts[0].Store.Val)
	return strings.HasSuffix(c, ".power + $3)")
}

// singleCmpReturn: fn returns exactly one comparison whose normal form equals (or, if !exact, implies by constant) want ≥ 0.
func (p *P) singleCmpReturn(rule string, fn *ssa.Function, what string, want Lin, exact bool) {
	rets := returnsOf(fn)
	name := funcName(fn)
	if len(rets) != 1 || len(rets[0].Results) != 1 {
		p.r.Undecided(rule, name+": "+what, "expected a single boolean return expression")
		return
	}
	rv := deref(rets[0].Results[0])
	negated := false
	if u, isU := rv.(*ssa.UnOp); isU && u.Op == token.NOT {
		rv, negated = deref(u.X), true
	}
	cmp0, ok := rv.(*ssa.BinOp)
	if !ok {
		p.r.Undecided(rule, name+": "+what, "return value is "+canon(rets[0].Results[0])+", not a comparison")
		return
	}
	op := cmp0.Op
	if negated {
		// !(a < b) ≡ a ≥ b etc.
		flip := map[token.Token]token.Token{token.LSS: token.GEQ, token.LEQ: token.GTR, token.GTR: token.LEQ, token.GEQ: token.LSS}
		nop, okf := flip[cmp0.Op]
		if !okf {
			p.r.Undecided(rule, name+": "+what, "cannot normalise negated "+canon(cmp0))
			return
		}
		op = nop
	}
	cmp := cmp0
	f, how, ok := p.quorumForm(op, cmp0.X, cmp0.Y)
	if !ok {
		p.r.Undecided(rule, name+": "+what, "cannot normalise "+canon(cmp))
		return
	}
	where := p.c.InstrPos(rets[0])
	good := false
	// allow a positive scalar multiple
	for k := int64(1); k <= 6; k++ {
		if f.equal(want.scale(k)) {
			good = true
		}
		if !exact {
			// f ≥ 0 must imply want ≥ 0: same variable part, f's constant ≤ k·want's constant
			d := f.add(want.scale(k), -1)
			if len(d.T) == 0 && d.C <= 0 {
				good = true
			}
		}
	}
	p.r.Check(good, rule, name+": "+what, where, fmt.Sprintf("%s normalises to %s ≥ 0", how, f.String()),
		fmt.Sprintf("%s normalises (%s) to %s ≥ 0, which is not %s ≥ 0 — the threshold is off at the boundary", canon(cmp), how, f.String(), want.String()))
}

// closureAccumulation: v is a load of a local captured by a closure of fn that
// adds to it; returns the canonical forms of the addends with captured
// variables resolved to the values stored in them by fn.
func closureAccumulation(v ssa.Value, fn *ssa.Function) []string {
	u, ok := v.(*ssa.UnOp)
	if !ok {
		return nil
	}
	acc, ok := u.X.(*ssa.Alloc)
	if !ok {
		return nil
	}
	var out []string
	for _, b := range fn.Blocks {
		for _, in := range b.Instrs {
			mc, ok := in.(*ssa.MakeClosure)
			if !ok {
				continue
			}
			cl := mc.Fn.(*ssa.Function)
			bound := map[string]string{} // freevar name -> canon of value stored in the bound alloc
			var accFV *ssa.FreeVar
			for i, bd := range mc.Bindings {
				fv := cl.FreeVars[i]
				if bd == acc {
					accFV = fv
				}
				if a, ok := bd.(*ssa.Alloc); ok {
					if vals := storesTo(a); len(vals) == 1 {
						bound["^"+fv.Name()] = canon(vals[0])
					}
				}
			}
			if accFV == nil {
				continue
			}
			for _, cb := range cl.Blocks {
				for _, cin := range cb.Instrs {
					st, ok := cin.(*ssa.Store)
					if !ok || st.Addr != accFV {
						continue
					}
					add, ok := st.Val.(*ssa.BinOp)
					if !ok || add.Op != token.ADD {
						out = append(out, "non-additive:"+canon(st.Val))
						continue
					}
					for _, opd := range []ssa.Value{add.X, add.Y} {
						c := canon(opd)
						if c == "^"+accFV.Name() {
							continue
						}
						for k, val := range bound {
							c = strings.ReplaceAll(c, k, val)
						}
						// captured values are rendered in the enclosing function's frame with $^i: map back
						c = strings.ReplaceAll(c, "$^", "$")
						out = append(out, c)
					}
				}
			}
		}
	}
	return out
}

// accumulatesFrom: v is a loop accumulator (phi / spilled alloc) that adds values whose canon contains src.
func (p *P) accumulatesFrom(v ssa.Value, src string) bool {
	seen := map[ssa.Value]bool{}
	found := false
	var walk func(x ssa.Value, d int)
	walk = func(x ssa.Value, d int) {
		if x == nil || seen[x] || d > 12 {
			return
		}
		seen[x] = true
		switch y := x.(type) {
		case *ssa.Phi:
			for _, e := range y.Edges {
				walk(e, d+1)
			}
		case *ssa.BinOp:
			if y.Op == token.ADD {
				if strings.Contains(canon(y.X), src) || strings.Contains(canon(y.Y), src) {
					found = true
				}
				walk(y.X, d+1)
				walk(y.Y, d+1)
			}
		case *ssa.UnOp:
			if a, ok := y.X.(*ssa.Alloc); ok {
				for _, sv := range storesTo(a) {
					walk(sv, d+1)
				}
			}
			if fv, ok := y.X.(*ssa.FreeVar); ok {
				_ = fv
			}
		}
	}
	walk(v, 0)
	return found
}
