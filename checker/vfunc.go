package main

import (
	"fmt"
	"os"
	"strings"

	"golang.org/x/tools/go/ssa"
)

// Virtual inlining. Rules are written against the functions that exist today
// ("anchors"). A behaviour-preserving refactoring often moves a few lines into
// a new unexported helper; an intraprocedural rule would then lose its guard
// or its sink. To stay silent on such edits every analysis runs on a VFunc:
// the anchor function with every *private helper* spliced in at its (single)
// call site — a helper being an in-repo function with a body, no defer, not
// recursive, exactly one static call site in production code, never used as a
// value, and not itself mentioned by any rule. The CFG, dominators, loops,
// SCCP, linear-form hypotheses and canonical expressions are all computed on
// the spliced graph; parameters of a helper canonicalise to the caller's
// argument expressions.

type VNode struct {
	Idx    int
	Block  *ssa.BasicBlock
	Fn     *ssa.Function
	Instrs []ssa.Instruction
	Succs  []*VNode
	Preds  []*VNode
	idom   *VNode
	rpo    int
}

type VFunc struct {
	Root   *ssa.Function
	Nodes  []*VNode
	Entry  *VNode
	nodeOf map[ssa.Instruction]*VNode
	first  map[*ssa.BasicBlock]*VNode
	last   map[*ssa.BasicBlock]*VNode
	Funcs  []*ssa.Function
	rets   map[*ssa.Function][]*ssa.Return // returns of each inlined helper
	loops  map[*VNode]map[*VNode]bool
}

var (
	mentioned    = map[string]bool{}          // function names used by rules (never inlined)
	inlineOn     = false                      // enabled in the second pass
	helperSite   = map[*ssa.Function]*ssa.Call{} // helper → its unique call site
	helperParent = map[*ssa.Function]*ssa.Function{}
	vfCache      = map[*ssa.Function]*VFunc{}
	// range-over-func: the synthetic yield closure holding a loop body → the dynamic call that runs the iterator
	rangeBody = map[*ssa.Call]*ssa.Function{}
)

// isRangeBody: h is the body of a `for … := range f` loop (go/ssa lowers it to a synthetic
// closure passed to the iterator). It is spliced into its parent as a loop.
func isRangeBody(h *ssa.Function) bool {
	if h == nil {
		return false
	}
	site := helperSite[h]
	return site != nil && rangeBody[site] == h
}

func mention(names ...string) {
	for _, n := range names {
		mentioned[n] = true
	}
}

// computeHelpers decides which functions are private helpers (see above).
func computeHelpers(c *Ctx) {
	helperSite = map[*ssa.Function]*ssa.Call{}
	helperParent = map[*ssa.Function]*ssa.Function{}
	vfCache = map[*ssa.Function]*VFunc{}
	canonCache = map[*ssa.Function]*canoner{}
	rangeBody = map[*ssa.Call]*ssa.Function{}
	if !inlineOn {
		return
	}
	// range-over-func loop bodies
	for _, f := range c.Funcs {
		if c.IsTestFile(f.Pos()) {
			continue
		}
		for _, b := range f.Blocks {
			for _, in := range b.Instrs {
				call, ok := in.(*ssa.Call)
				if !ok || call.Call.IsInvoke() || call.Call.StaticCallee() != nil {
					continue
				}
				for _, a := range call.Call.Args {
					mc, ok := a.(*ssa.MakeClosure)
					if !ok {
						continue
					}
					if y, ok := mc.Fn.(*ssa.Function); ok && strings.Contains(y.Synthetic, "range-over-func") && y.Blocks != nil && y.Recover == nil {
						rangeBody[call] = y
					}
				}
			}
		}
	}
	sites := map[*ssa.Function][]*ssa.Call{}
	other := map[*ssa.Function]int{} // go/defer calls, value uses
	for _, f := range c.Funcs {
		if c.IsTestFile(f.Pos()) || (f.Synthetic != "" && len(f.TypeArgs()) == 0) {
			continue // promotion/bound-method wrappers are not real call sites
		}
		for _, b := range f.Blocks {
			for _, in := range b.Instrs {
				if ci, ok := in.(ssa.CallInstruction); ok {
					if callee := ci.Common().StaticCallee(); callee != nil {
						if call, isCall := in.(*ssa.Call); isCall {
							sites[callee] = append(sites[callee], call)
						} else {
							other[callee]++
						}
					}
				}
				for _, op := range in.Operands(nil) {
					if op == nil || *op == nil {
						continue
					}
					if fv, ok := (*op).(*ssa.Function); ok {
						if ci, isCall := in.(ssa.CallInstruction); isCall && ci.Common().Value == fv {
							continue
						}
						other[fv]++
					}
				}
			}
		}
	}
	for h, ss := range sites {
		if os.Getenv("F3LINT_DEBUG_HELPER") != "" && strings.Contains(funcName(h), os.Getenv("F3LINT_DEBUG_HELPER")) {
			fmt.Fprintf(os.Stderr, "helper? %s sites=%d other=%d blocks=%v recover=%v parent=%v synthetic=%q mentioned=%v\n", funcName(h), len(ss), other[h], h.Blocks != nil, h.Recover != nil, h.Parent() != nil, h.Synthetic, mentioned[funcName(h)])
			for _, c := range ss {
				fmt.Fprintf(os.Stderr, "   site in %s synthetic=%q\n", c.Parent().String(), c.Parent().Synthetic)
			}
		}
		if len(ss) != 1 || other[h] > 0 || h.Blocks == nil || h.Recover != nil || h.Parent() != nil {
			continue
		}
		if h.Pkg == nil || !strings.HasPrefix(h.Pkg.Pkg.Path(), modPath) {
			continue
		}
		if (h.TypeParams() != nil && h.TypeParams().Len() > 0) || len(h.TypeArgs()) > 0 || h.Synthetic != "" {
			continue
		}
		if mentioned[funcName(h)] || c.IsTestFile(h.Pos()) {
			continue
		}
		// exported methods may be called through interfaces from elsewhere: only inline unexported functions/methods
		if n := h.Name(); n == "" || (n[0] >= 'A' && n[0] <= 'Z') {
			continue
		}
		hasDefer := false
		for _, b := range h.Blocks {
			for _, in := range b.Instrs {
				if _, ok := in.(*ssa.Defer); ok {
					hasDefer = true
				}
			}
		}
		if hasDefer {
			continue
		}
		helperSite[h] = ss[0]
		helperParent[h] = ss[0].Parent()
	}
	for call, y := range rangeBody {
		if mentioned[funcName(y)] {
			delete(rangeBody, call)
			continue
		}
		helperSite[y] = call
		helperParent[y] = call.Parent()
	}
	// drop recursion: a helper whose parent chain reaches itself
	for h := range helperSite {
		seen := map[*ssa.Function]bool{h: true}
		for p := helperParent[h]; p != nil; p = helperParent[p] {
			if seen[p] {
				delete(helperSite, h)
				break
			}
			seen[p] = true
		}
	}
}

func isInlined(call *ssa.Call) *ssa.Function {
	if call == nil {
		return nil
	}
	if y := rangeBody[call]; y != nil && helperSite[y] == call {
		return y
	}
	h := call.Call.StaticCallee()
	if h != nil && helperSite[h] == call {
		return h
	}
	return nil
}

// rootOf follows helper → caller links to the function the helper is spliced into.
func rootOf(f *ssa.Function) *ssa.Function {
	for i := 0; i < 16; i++ {
		p, ok := helperParent[f]
		if !ok || helperSite[f] == nil {
			return f
		}
		f = p
	}
	return f
}

func vfuncOf(fn *ssa.Function) *VFunc {
	fn = rootOf(fn)
	if vf, ok := vfCache[fn]; ok {
		return vf
	}
	vf := &VFunc{Root: fn, nodeOf: map[ssa.Instruction]*VNode{}, first: map[*ssa.BasicBlock]*VNode{}, last: map[*ssa.BasicBlock]*VNode{}, rets: map[*ssa.Function][]*ssa.Return{}, loops: map[*VNode]map[*VNode]bool{}}
	vfCache[fn] = vf
	vf.splice(fn, 0)
	if len(vf.Nodes) > 0 {
		vf.Entry = vf.first[fn.Blocks[0]]
		vf.dominators()
	}
	return vf
}

func (vf *VFunc) newNode(b *ssa.BasicBlock) *VNode {
	n := &VNode{Idx: len(vf.Nodes), Block: b, Fn: b.Parent()}
	vf.Nodes = append(vf.Nodes, n)
	return n
}

func link(a, b *VNode) {
	a.Succs = append(a.Succs, b)
	b.Preds = append(b.Preds, a)
}

// splice adds fn's blocks (split at inlined calls) and, recursively, its helpers.
func (vf *VFunc) splice(fn *ssa.Function, depth int) {
	vf.Funcs = append(vf.Funcs, fn)
	type pending struct {
		before *VNode
		after  *VNode
		h      *ssa.Function
	}
	var calls []pending
	for _, b := range fn.Blocks {
		cur := vf.newNode(b)
		vf.first[b] = cur
		for _, in := range b.Instrs {
			if call, ok := in.(*ssa.Call); ok && depth < 6 {
				if h := isInlined(call); h != nil {
					next := vf.newNode(b)
					calls = append(calls, pending{cur, next, h})
					cur = next
				}
			}
			cur.Instrs = append(cur.Instrs, in)
			vf.nodeOf[in] = cur
		}
		vf.last[b] = cur
	}
	for _, b := range fn.Blocks {
		for _, s := range b.Succs {
			link(vf.last[b], vf.first[s])
		}
	}
	for _, pc := range calls {
		vf.splice(pc.h, depth+1)
		link(pc.before, vf.first[pc.h.Blocks[0]])
		loop := isRangeBody(pc.h)
		if loop {
			link(pc.before, pc.after) // the sequence may be empty
		}
		for _, hb := range pc.h.Blocks {
			if len(hb.Instrs) == 0 {
				continue
			}
			if r, ok := hb.Instrs[len(hb.Instrs)-1].(*ssa.Return); ok {
				vf.rets[pc.h] = append(vf.rets[pc.h], r)
				if !loop {
					link(vf.last[hb], pc.after)
					continue
				}
				// loop body: "return false" leaves the loop (break / return), "return true" goes on to the next
				// element or, when the sequence is exhausted, leaves it
				again := true
				if len(r.Results) == 1 {
					if k, ok := r.Results[0].(*ssa.Const); ok && k.Value != nil && k.Value.String() == "false" {
						again = false
					}
				}
				link(vf.last[hb], pc.after)
				if again {
					link(vf.last[hb], vf.first[pc.h.Blocks[0]])
				}
			}
		}
	}
}

// dominators: iterative algorithm on reverse post-order.
func (vf *VFunc) dominators() {
	var order []*VNode
	seen := map[*VNode]bool{}
	var dfs func(n *VNode)
	dfs = func(n *VNode) {
		seen[n] = true
		for _, s := range n.Succs {
			if !seen[s] {
				dfs(s)
			}
		}
		order = append(order, n)
	}
	dfs(vf.Entry)
	for i, j := 0, len(order)-1; i < j; i, j = i+1, j-1 {
		order[i], order[j] = order[j], order[i]
	}
	for i, n := range order {
		n.rpo = i + 1
	}
	vf.Entry.idom = vf.Entry
	intersect := func(a, b *VNode) *VNode {
		for a != b {
			for a.rpo > b.rpo {
				a = a.idom
			}
			for b.rpo > a.rpo {
				b = b.idom
			}
		}
		return a
	}
	changed := true
	for changed {
		changed = false
		for _, n := range order[1:] {
			var nd *VNode
			for _, p := range n.Preds {
				if p.idom == nil {
					continue
				}
				if nd == nil {
					nd = p
				} else {
					nd = intersect(p, nd)
				}
			}
			if nd != nil && n.idom != nd {
				n.idom = nd
				changed = true
			}
		}
	}
	vf.Entry.idom = nil
}

func (n *VNode) Idom() *VNode { return n.idom }

func (n *VNode) Dominates(m *VNode) bool {
	if n == nil || m == nil {
		return false
	}
	if m.rpo == 0 || n.rpo == 0 {
		return false // unreachable from the entry (e.g. recover block)
	}
	for x := m; x != nil; x = x.idom {
		if x == n {
			return true
		}
	}
	return false
}

func (vf *VFunc) node(in ssa.Instruction) *VNode { return vf.nodeOf[in] }

func nodeOfInstr(in ssa.Instruction) (*VFunc, *VNode) {
	if in == nil || in.Parent() == nil {
		return nil, nil
	}
	vf := vfuncOf(in.Parent())
	return vf, vf.nodeOf[in]
}

func posInNode(n *VNode, in ssa.Instruction) int {
	for i, x := range n.Instrs {
		if x == in {
			return i
		}
	}
	return -1
}

// instrsOf lists every instruction of fn and of the helpers spliced into it.
func instrsOf(fn *ssa.Function) []ssa.Instruction {
	if rootOf(fn) != fn {
		// fn is itself a helper being inspected directly: only its own body
		var out []ssa.Instruction
		for _, b := range fn.Blocks {
			out = append(out, b.Instrs...)
		}
		return out
	}
	vf := vfuncOf(fn)
	var out []ssa.Instruction
	for _, n := range vf.Nodes {
		out = append(out, n.Instrs...)
	}
	return out
}
