package main

import (
	"fmt"
	"go/constant"
	"regexp"
	"sort"
	"strings"

	"golang.org/x/tools/go/ssa"
)

// P is the per-property rule context.
type P struct {
	c      *Ctx
	r      *Report
	nested bool // running as an included rule set: do not include further
}

// fn resolves an anchor function; a missing anchor is an undecided obligation (fails the check).
func (p *P) fn(rule, name string) *ssa.Function {
	mention(name)
	f := p.c.Fn(name)
	if f == nil {
		p.r.Undecided(rule, "anchor "+name, "anchor function "+name+" not found in /repo — the rule cannot be decided (renamed or removed?)")
	}
	return f
}

// fnWith resolves the function — parent itself or any closure nested in it —
// that contains a call to callee. Closures are found by content, not by index.
func (p *P) fnWith(rule, parent, callee string) *ssa.Function {
	f := p.fn(rule, parent)
	if f == nil {
		return nil
	}
	var found *ssa.Function
	var walk func(g *ssa.Function)
	walk = func(g *ssa.Function) {
		if found == nil && len(callsTo(g, false, callee)) > 0 {
			found = g
		}
		for _, a := range g.AnonFuncs {
			walk(a)
		}
	}
	walk(f)
	if found == nil {
		p.r.Undecided(rule, "anchor "+parent+" ∋ "+callee, "no function or closure in "+parent+" calls "+callee)
	}
	return found
}

// ---------- value matchers ----------

// VM matches SSA values of one function and yields the abstract value to inject.
type VM struct {
	Name string
	// Match returns the values to bind and the abstract value for each.
	Match func(fn *ssa.Function) map[ssa.Value]AV
	// Also: auxiliary injections (context assumptions such as "no cache hit");
	// they are applied together with Match but are not guard positions.
	Also []VM
}

// with adds context injections to a guard.
func (v VM) with(aux ...VM) VM {
	v.Also = append(append([]VM{}, v.Also...), aux...)
	return v
}

func (v VM) all(fn *ssa.Function) map[ssa.Value]AV {
	out := v.Match(fn)
	for _, a := range v.Also {
		for k, x := range a.all(fn) {
			if _, ok := out[k]; !ok {
				out[k] = x
			}
		}
	}
	return out
}

func allValues(fn *ssa.Function, f func(v ssa.Value)) {
	for _, in := range instrsOf(fn) {
		if v, ok := in.(ssa.Value); ok {
			f(v)
		}
	}
}

func re(s string) *regexp.Regexp { return regexp.MustCompile(s) }

// callResult matches the result of calls to callee (optionally filtered by a
// regexp on the canonical form of the whole call) and binds result #idx
// (idx<0: the call value itself, for single-result functions) to av.
func callResult(name, callee string, callRe string, idx int, av AV) VM {
	mention(callee)
	var rx *regexp.Regexp
	if callRe != "" {
		rx = re(callRe)
	}
	return VM{Name: name, Match: func(fn *ssa.Function) map[ssa.Value]AV {
		out := map[ssa.Value]AV{}
		for _, cs := range callSites(fn, false) {
			if cs.Callee() != callee {
				continue
			}
			v := cs.Value()
			if v == nil {
				continue
			}
			if rx != nil && !rx.MatchString(canon(v)) {
				continue
			}
			if idx < 0 {
				out[v] = av
				continue
			}
			for _, r := range *v.Referrers() {
				if ex, ok := r.(*ssa.Extract); ok && ex.Index == idx {
					out[ex] = av
				}
			}
		}
		return out
	}}
}

// errFails: the error result of callee is non-nil. The error is the last result.
func errFails(name, callee, callRe string) VM {
	mention(callee)
	var rx *regexp.Regexp
	if callRe != "" {
		rx = re(callRe)
	}
	return VM{Name: name, Match: func(fn *ssa.Function) map[ssa.Value]AV {
		out := map[ssa.Value]AV{}
		for _, cs := range callSites(fn, false) {
			if cs.Callee() != callee {
				continue
			}
			v := cs.Value()
			if v == nil {
				continue
			}
			if rx != nil && !rx.MatchString(canon(v)) {
				continue
			}
			res := cs.Common.Signature().Results()
			if res.Len() == 1 {
				out[v] = avNonNil
				continue
			}
			for _, r := range *v.Referrers() {
				if ex, ok := r.(*ssa.Extract); ok && ex.Index == res.Len()-1 {
					out[ex] = avNonNil
				}
			}
		}
		return out
	}}
}

// canonIs binds every value whose canonical form matches rx to av.
func canonIs(name, rx string, av AV) VM {
	r := re(rx)
	return VM{Name: name, Match: func(fn *ssa.Function) map[ssa.Value]AV {
		out := map[ssa.Value]AV{}
		allValues(fn, func(v ssa.Value) {
			if r.MatchString(canon(v)) {
				out[v] = av
			}
		})
		return out
	}}
}

// Relation between two operands, injected into every comparison between them.
type Rel int

const (
	RelLT Rel = iota
	RelEQ
	RelGT
	RelNE // for ==/!= only
)

// cmpRel: every comparison BinOp whose operands match (xRe, yRe) (in either
// order) is evaluated as if x REL y.
func cmpRel(name, xRe, yRe string, rel Rel) VM {
	rx, ry := re(xRe), re(yRe)
	return VM{Name: name, Match: func(fn *ssa.Function) map[ssa.Value]AV {
		out := map[ssa.Value]AV{}
		allValues(fn, func(v ssa.Value) {
			b, ok := v.(*ssa.BinOp)
			if !ok {
				return
			}
			cx, cy := canon(b.X), canon(b.Y)
			r := rel
			switch {
			case rx.MatchString(cx) && ry.MatchString(cy):
			case rx.MatchString(cy) && ry.MatchString(cx):
				// swap
				switch rel {
				case RelLT:
					r = RelGT
				case RelGT:
					r = RelLT
				}
			default:
				return
			}
			if r == RelNE {
				// unsigned x ≠ 0 is x > 0: the ordered comparisons are decidable too
				if isUnsigned(b.X.Type()) && isZeroConst(b.Y) {
					r = RelGT
				} else if isUnsigned(b.Y.Type()) && isZeroConst(b.X) {
					r = RelLT
				}
			}
			var res bool
			switch b.Op.String() {
			case "==":
				res = r == RelEQ
			case "!=":
				res = r != RelEQ
			case "<":
				if r == RelNE {
					return
				}
				res = r == RelLT
			case "<=":
				if r == RelNE {
					return
				}
				res = r == RelLT || r == RelEQ
			case ">":
				if r == RelNE {
					return
				}
				res = r == RelGT
			case ">=":
				if r == RelNE {
					return
				}
				res = r == RelGT || r == RelEQ
			default:
				return
			}
			out[b] = avBool(res)
		})
		return out
	}}
}

func union(vms ...VM) VM {
	var names []string
	for _, v := range vms {
		names = append(names, v.Name)
	}
	return VM{Name: strings.Join(names, " ∧ "), Match: func(fn *ssa.Function) map[ssa.Value]AV {
		out := map[ssa.Value]AV{}
		for _, vm := range vms {
			for k, v := range vm.Match(fn) {
				out[k] = v
			}
		}
		return out
	}}
}

// ---------- sinks ----------

type Sink struct {
	Instr ssa.Instruction
	Label string
}

func callSinks(fn *ssa.Function, label string, callees ...string) []Sink {
	mention(callees...)
	var out []Sink
	for _, cs := range callsTo(fn, false, callees...) {
		out = append(out, Sink{cs.Instr, label + " " + cs.Callee()})
	}
	return out
}

func callSinksRe(fn *ssa.Function, label string, rx string) []Sink {
	r := re(rx)
	var out []Sink
	for _, cs := range callSites(fn, false) {
		var s string
		if v := cs.Value(); v != nil {
			s = canon(v)
		} else {
			s = newCanoner(fn).call(cs.Common, 0)
		}
		if r.MatchString(s) {
			out = append(out, Sink{cs.Instr, label})
		}
	}
	return out
}

// okReturns are the returns whose error result (last result) may be nil:
// the nil constant, or a phi with a nil edge, or a value that is not a freshly
// constructed error. Used as the "accept" sink of validators.
func okReturns(fn *ssa.Function) []Sink {
	var out []Sink
	for _, r := range returnsOf(fn) {
		if len(r.Results) == 0 || r.Block() == fn.Recover {
			continue
		}
		e := retValue(r, len(r.Results)-1)
		if mayBeNilErr(e, map[ssa.Value]bool{}) {
			out = append(out, Sink{r, "return with nil error"})
		}
	}
	return out
}

// altsUnder: the values v may take under the SCCP result s — a phi is expanded along its
// executable incoming edges only (nested phis flattened).
func altsUnder(s *SCCP, v ssa.Value) []ssa.Value {
	seen := map[ssa.Value]bool{}
	var out []ssa.Value
	var walk func(x ssa.Value)
	walk = func(x ssa.Value) {
		if seen[x] {
			return
		}
		seen[x] = true
		ph, ok := x.(*ssa.Phi)
		if !ok {
			out = append(out, x)
			return
		}
		for i, e := range ph.Edges {
			if s.EdgeExec(ph.Block().Preds[i], ph.Block()) {
				walk(e)
			}
		}
	}
	walk(v)
	return out
}

// errReturns are the returns whose error result (last result) is not the nil constant.
func errReturns(fn *ssa.Function) []Sink {
	var out []Sink
	for _, r := range returnsOf(fn) {
		if len(r.Results) == 0 || r.Block() == fn.Recover {
			continue
		}
		if e := retValue(r, len(r.Results)-1); canon(e) != "nil" {
			out = append(out, Sink{r, "return with an error"})
		}
	}
	return out
}

func mayBeNilErr(v ssa.Value, seen map[ssa.Value]bool) bool {
	if seen[v] {
		return false
	}
	seen[v] = true
	switch x := v.(type) {
	case *ssa.Const:
		return x.Value == nil
	case *ssa.Phi:
		for _, e := range x.Edges {
			if mayBeNilErr(e, seen) {
				return true
			}
		}
		return false
	case *ssa.MakeInterface:
		return false
	case *ssa.Call:
		switch calleeName(&x.Call) {
		case "fmt.Errorf", "errors.New", "golang.org/x/xerrors.Errorf", "golang.org/x/xerrors.New", "errors.Join":
			return false
		}
		return false // a propagated error from a callee: by convention `if err != nil { return err }`
	case *ssa.Extract:
		return false
	case *ssa.UnOp:
		// load of a named result / spilled variable: look at stores
		if a, ok := x.X.(*ssa.Alloc); ok {
			for _, r := range *a.Referrers() {
				if st, ok := r.(*ssa.Store); ok && st.Addr == a {
					if mayBeNilErr(st.Val, seen) {
						return true
					}
				}
			}
			return false
		}
	}
	return false
}

// retValue resolves the idx-th result of a return; when the function has
// defers, results are spilled to allocs and re-loaded: use the last store to
// that alloc in the returning block.
func retValue(r *ssa.Return, idx int) ssa.Value {
	v := r.Results[idx]
	if u, ok := v.(*ssa.UnOp); ok {
		if a, ok := u.X.(*ssa.Alloc); ok {
			instrs := r.Block().Instrs
			for i := len(instrs) - 1; i >= 0; i-- {
				if st, ok := instrs[i].(*ssa.Store); ok && st.Addr == a {
					return st.Val
				}
			}
		}
	}
	return v
}

// trueReturns: returns whose i-th result may be the constant true.
func constReturns(fn *ssa.Function, idx int, want string) []Sink {
	var out []Sink
	for _, r := range returnsOf(fn) {
		if idx >= len(r.Results) || r.Block() == fn.Recover {
			continue
		}
		if mayBeConst(retValue(r, idx), want, map[ssa.Value]bool{}) {
			out = append(out, Sink{r, fmt.Sprintf("return #%d = %s", idx, want)})
		}
	}
	return out
}

func mayBeConst(v ssa.Value, want string, seen map[ssa.Value]bool) bool {
	if seen[v] {
		return false
	}
	seen[v] = true
	switch x := v.(type) {
	case *ssa.Const:
		return constStr(x) == want
	case *ssa.Phi:
		for _, e := range x.Edges {
			if mayBeConst(e, want, seen) {
				return true
			}
		}
	}
	return false
}

// ---------- GD: guard dominance by failure injection ----------

// guarded checks that each sink is unreachable in fn when the guard fails.
// construct keys are "<fn>: <sink label> requires <guard name>".
func (p *P) guarded(rule string, fn *ssa.Function, sinks []Sink, guards ...VM) {
	if fn == nil {
		return
	}
	fname := funcName(fn)
	if len(sinks) == 0 {
		p.r.Undecided(rule, fname+": sinks", "no sink construct found in "+fname+" — rule cannot be decided")
		return
	}
	for _, g := range guards {
		inj := g.Match(fn)
		if len(inj) == 0 {
			p.r.Fail(rule, fname+": guard "+g.Name, p.c.Pos(fn.Pos()), "guard «"+g.Name+"» does not occur in "+fname+" (check removed?)")
			continue
		}
		s := RunSCCP(fn, g.all(fn))
		// sort for stable output
		for _, sk := range sinks {
			construct := fmt.Sprintf("%s: %s requires %s", fname, sk.Label, g.Name)
			if s.Reachable(sk.Instr) {
				var w []string
				for _, n := range s.PathTo(sk.Instr) {
					if len(n.Instrs) > 0 {
						w = append(w, fmt.Sprintf("n%d@%s", n.Idx, p.c.InstrPos(n.Instrs[0])))
					}
				}
				var gpos []string
				for v := range inj {
					if in, ok := v.(ssa.Instruction); ok {
						gpos = append(gpos, p.c.InstrPos(in))
					}
				}
				sort.Strings(gpos)
				p.r.FailW(rule, construct, p.c.InstrPos(sk.Instr),
					fmt.Sprintf("%s is reachable although guard «%s» (at %s) fails", sk.Label, g.Name, strings.Join(gpos, ",")),
					strings.Join(w, " → "))
			} else {
				o := p.r.add(rule, construct, "discharged", p.c.InstrPos(sk.Instr), "unreachable under failure injection of the guard (SCCP)", "")
				o.Engine = "GD"
			}
		}
	}
}

// guardedAfter is the conditional form: the guard need not lie on every path
// to the sink (it may sit under a condition or in a loop body that runs zero
// times), but once it has executed and failed the sink must be unreachable.
func (p *P) guardedAfter(rule string, fn *ssa.Function, sinks []Sink, guards ...VM) {
	if fn == nil {
		return
	}
	fname := funcName(fn)
	if len(sinks) == 0 {
		p.r.Undecided(rule, fname+": sinks", "no sink construct found in "+fname)
		return
	}
	for _, g := range guards {
		inj := g.Match(fn)
		if len(inj) == 0 {
			p.r.Fail(rule, fname+": guard "+g.Name, p.c.Pos(fn.Pos()), "guard «"+g.Name+"» does not occur in "+fname+" (check removed?)")
			continue
		}
		s := RunSCCP(fn, g.all(fn))
		for _, sk := range sinks {
			construct := fmt.Sprintf("%s: %s unreachable after failed %s", fname, sk.Label, g.Name)
			bad := ""
			for v := range inj {
				gi, ok := v.(ssa.Instruction)
				if !ok || !s.Reachable(gi) {
					continue
				}
				if s.reachableAfter(gi, sk.Instr) {
					bad = p.c.InstrPos(gi)
				}
			}
			if bad != "" {
				// the guard sits in a spliced helper: follow the activation in which it failed (its result reaches the
				// caller only through the returns reachable from the guard inside the helper)
				filter := map[*ssa.Function]map[*ssa.Return]bool{}
				for v := range inj {
					gi, ok := v.(ssa.Instruction)
					if !ok || gi.Parent() == nil || gi.Parent() == fn || helperSite[gi.Parent()] == nil {
						continue
					}
					h := gi.Parent()
					seen := map[*ssa.BasicBlock]bool{}
					var walk func(b *ssa.BasicBlock)
					walk = func(b *ssa.BasicBlock) {
						if seen[b] {
							return
						}
						seen[b] = true
						if len(b.Instrs) > 0 {
							if ret, ok := b.Instrs[len(b.Instrs)-1].(*ssa.Return); ok {
								if filter[h] == nil {
									filter[h] = map[*ssa.Return]bool{}
								}
								filter[h][ret] = true
							}
						}
						for _, su := range b.Succs {
							walk(su)
						}
					}
					walk(gi.Block())
				}
				if len(filter) > 0 {
					sccpRetFilter = filter
					s2 := RunSCCP(fn, g.all(fn))
					sccpRetFilter = map[*ssa.Function]map[*ssa.Return]bool{}
					still := false
					for v := range inj {
						gi, ok := v.(ssa.Instruction)
						if ok && s2.Reachable(gi) && s2.reachableAfter(gi, sk.Instr) {
							still = true
						}
					}
					if !still {
						bad = ""
					}
				}
			}
			if bad != "" {
				p.r.Fail(rule, construct, p.c.InstrPos(sk.Instr), fmt.Sprintf("%s is reachable after guard «%s» failed at %s", sk.Label, g.Name, bad))
			} else {
				o := p.r.add(rule, construct, "discharged", p.c.InstrPos(sk.Instr), "unreachable from the failed guard (SCCP)", "")
				o.Engine = "GD"
			}
		}
	}
}

// ---------- CG: who may call ----------

// callersOf lists every call site (in production functions, or all when tests
// are loaded) that may invoke the named function (static callee) or interface method ("iface:T.M").
func (p *P) callersOf(names ...string) []CallSite {
	mention(names...)
	var out []CallSite
	for _, f := range p.c.Funcs {
		if f.Synthetic != "" || helperSite[f] != nil {
			continue
		}
		for _, cs := range callSites(f, false) {
			n := cs.Callee()
			for _, w := range names {
				if n == w {
					out = append(out, cs)
				}
			}
		}
		// function values (method values / bound methods) count as potential calls
		for _, in := range instrsOf(f) {
			{
				for _, op := range in.Operands(nil) {
					if op == nil || *op == nil {
						continue
					}
					if fv, ok := (*op).(*ssa.Function); ok {
						if _, isCall := in.(ssa.CallInstruction); isCall && in.(ssa.CallInstruction).Common().Value == fv {
							continue
						}
						for _, w := range names {
							if funcName(fv) == w {
								out = append(out, CallSite{nil, nil, f})
							}
						}
					}
				}
			}
		}
	}
	return out
}

// onlyCalledFrom: every production call site of callee lies in one of the allowed functions.
func (p *P) onlyCalledFrom(rule, callee string, allowed ...string) []CallSite {
	mention(callee)
	mention(allowed...)
	if p.c.Fn(callee) == nil && !strings.HasPrefix(callee, "iface:") {
		p.r.Undecided(rule, "anchor "+callee, "anchor function "+callee+" not found")
		return nil
	}
	sites := p.callersOf(callee)
	okSet := map[string]bool{}
	for _, a := range allowed {
		okSet[a] = true
	}
	found := 0
	var keep []CallSite
	for _, cs := range sites {
		if p.c.IsTestFile(cs.Fn.Pos()) {
			continue
		}
		caller := funcName(rootOf(cs.Fn)) // a private helper is part of the function it is spliced into
		where := p.c.Pos(cs.Fn.Pos())
		if cs.Instr != nil {
			where = p.c.InstrPos(cs.Instr)
		}
		allowedCaller := okSet[caller]
		for a := range okSet {
			if strings.HasPrefix(caller, a+"$") {
				allowedCaller = true // a closure nested in an allowed function
			}
		}
		if !allowedCaller && p.onlyReachedFrom(rootOf(cs.Fn), okSet, 0) {
			allowedCaller = true // an unexported helper all of whose callers are allowed
		}
		if allowedCaller {
			found++
			keep = append(keep, cs)
			p.r.OK(rule, fmt.Sprintf("%s called from %s", callee, caller), where, "caller is in the allowed set")
		} else {
			p.r.Fail(rule, fmt.Sprintf("%s called from %s", callee, caller), where, fmt.Sprintf("%s may only be called from {%s}", callee, strings.Join(allowed, ", ")))
		}
	}
	if found == 0 {
		p.r.Undecided(rule, callee+" callers", "no allowed call site of "+callee+" found (expected at least one)")
	}
	return keep
}

// onlyReachedFrom: h is an unexported in-repo function, never used as a value, and every one of its
// production call sites lies (transitively) in a function of okSet.
func (p *P) onlyReachedFrom(h *ssa.Function, okSet map[string]bool, depth int) bool {
	if h == nil || depth > 4 || h.Parent() != nil {
		return false
	}
	n := h.Name()
	if n == "" || (n[0] >= 'A' && n[0] <= 'Z') || h.Pkg == nil || !strings.HasPrefix(h.Pkg.Pkg.Path(), modPath) {
		return false
	}
	sites := 0
	for _, f := range p.c.Funcs {
		if f.Synthetic != "" || p.c.IsTestFile(f.Pos()) {
			continue
		}
		for _, b := range f.Blocks {
			for _, in := range b.Instrs {
				for _, op := range in.Operands(nil) {
					if op == nil || *op != ssa.Value(h) {
						continue
					}
					ci, isCall := in.(ssa.CallInstruction)
					if !isCall || ci.Common().Value != ssa.Value(h) {
						return false // used as a value
					}
					sites++
					caller := rootOf(f)
					cn := funcName(caller)
					ok := okSet[cn]
					for a := range okSet {
						if strings.HasPrefix(cn, a+"$") {
							ok = true
						}
					}
					if !ok && !p.onlyReachedFrom(caller, okSet, depth+1) {
						return false
					}
				}
			}
		}
	}
	return sites > 0
}

// fieldWriters: every store to struct.field in production code lies in an allowed function.
func (p *P) fieldWriters(rule, structName, field string, allowed ...string) []FieldStore {
	mention(allowed...)
	okSet := map[string]bool{}
	for _, a := range allowed {
		okSet[a] = true
	}
	var all []FieldStore
	for _, f := range p.c.ProdFuncs() {
		for _, fs := range fieldStores(f, false, structName, field) {
			all = append(all, fs)
			w := funcName(rootOf(f))
			c := fmt.Sprintf("store to %s.%s in %s", structName, field, w)
			if okSet[w] || p.onlyReachedFrom(rootOf(f), okSet, 0) {
				p.r.OK(rule, c, p.c.InstrPos(fs.Store), "writer is in the allowed set")
			} else {
				p.r.Fail(rule, c, p.c.InstrPos(fs.Store), fmt.Sprintf("%s.%s may only be written in {%s}", structName, field, strings.Join(allowed, ", ")))
			}
		}
	}
	if len(all) == 0 {
		p.r.Undecided(rule, structName+"."+field+" writers", "no store found (anchor moved?)")
	}
	return all
}

// ---------- ORD ----------

// before: every b-site is dominated by some a-site.
func (p *P) before(rule string, fn *ssa.Function, aLabel string, as []Sink, bLabel string, bs []Sink) {
	if fn == nil {
		return
	}
	fname := funcName(fn)
	if len(as) == 0 {
		p.r.Fail(rule, fmt.Sprintf("%s: %s ≺ %s", fname, aLabel, bLabel), p.c.Pos(fn.Pos()), "no «"+aLabel+"» site found in "+fname)
		return
	}
	if len(bs) == 0 {
		p.r.Undecided(rule, fmt.Sprintf("%s: %s ≺ %s", fname, aLabel, bLabel), "no «"+bLabel+"» site found in "+fname)
		return
	}
	for i, b := range bs {
		ok := false
		for _, a := range as {
			if dominates(a.Instr, b.Instr) {
				ok = true
			}
		}
		c := fmt.Sprintf("%s: %s ≺ %s #%d", fname, aLabel, bLabel, i+1)
		if ok {
			o := p.r.add(rule, c, "discharged", p.c.InstrPos(b.Instr), "dominated on every path", "")
			o.Engine = "ORD"
		} else {
			p.r.Fail(rule, c, p.c.InstrPos(b.Instr), fmt.Sprintf("«%s» can execute without «%s» having executed before it", bLabel, aLabel))
		}
	}
}

// notAfter: no b-site is reachable after any a-site.
func (p *P) notAfter(rule string, fn *ssa.Function, aLabel string, as []Sink, bLabel string, bs []Sink) {
	if fn == nil {
		return
	}
	fname := funcName(fn)
	if len(as) == 0 {
		p.r.Undecided(rule, fmt.Sprintf("%s: no %s after %s", fname, bLabel, aLabel), "no «"+aLabel+"» site found")
		return
	}
	for i, a := range as {
		bad := ""
		for _, b := range bs {
			if b.Instr != a.Instr && reachableFrom(a.Instr, b.Instr) {
				bad = p.c.InstrPos(b.Instr)
			}
		}
		c := fmt.Sprintf("%s: no %s after %s #%d", fname, bLabel, aLabel, i+1)
		if bad == "" {
			p.r.OK(rule, c, p.c.InstrPos(a.Instr), "no such site is reachable afterwards")
		} else {
			p.r.Fail(rule, c, bad, fmt.Sprintf("«%s» is reachable after «%s» at %s", bLabel, aLabel, p.c.InstrPos(a.Instr)))
		}
	}
}

// ---------- DT ----------

type Atom struct {
	Name string
	VM   func(val bool) VM
}

type Effect struct {
	Name  string
	Sinks []Sink
}

// table enumerates all assignments of atoms, computes the set of reachable
// effects by SCCP and compares it with spec(assign). Returns rows evaluated.
func (p *P) table(rule string, fn *ssa.Function, atoms []Atom, fixed []VM, effects []Effect, spec func(a map[string]bool) []string) {
	if fn == nil {
		return
	}
	fname := funcName(fn)
	for _, a := range atoms {
		if len(a.VM(true).Match(fn)) == 0 {
			p.r.Fail(rule, fname+": atom "+a.Name, p.c.Pos(fn.Pos()), "decision atom «"+a.Name+"» does not occur in "+fname)
			return
		}
	}
	for _, e := range effects {
		if len(e.Sinks) == 0 {
			p.r.Fail(rule, fname+": effect "+e.Name, p.c.Pos(fn.Pos()), "effect «"+e.Name+"» does not occur in "+fname)
			return
		}
	}
	n := len(atoms)
	bad := 0
	for mask := 0; mask < 1<<n; mask++ {
		assign := map[string]bool{}
		inj := map[ssa.Value]AV{}
		for _, f := range fixed {
			for k, v := range f.Match(fn) {
				inj[k] = v
			}
		}
		var desc []string
		for i, a := range atoms {
			val := mask&(1<<i) != 0
			assign[a.Name] = val
			for k, v := range a.VM(val).Match(fn) {
				inj[k] = v
			}
			if val {
				desc = append(desc, a.Name)
			} else {
				desc = append(desc, "¬"+a.Name)
			}
		}
		s := RunSCCP(fn, inj)
		var got []string
		for _, e := range effects {
			for _, sk := range e.Sinks {
				if s.Reachable(sk.Instr) {
					got = append(got, e.Name)
					break
				}
			}
		}
		want := spec(assign)
		sort.Strings(got)
		sort.Strings(want)
		p.r.Rows++
		if strings.Join(got, ",") != strings.Join(want, ",") {
			bad++
			if bad <= 6 {
				p.r.Fail(rule, fmt.Sprintf("%s: row %s", fname, strings.Join(desc, " ")), p.c.Pos(fn.Pos()),
					fmt.Sprintf("decision table row differs: expected effects {%s}, code reaches {%s}", strings.Join(want, ","), strings.Join(got, ",")))
			}
		}
	}
	if bad == 0 {
		o := p.r.add(rule, fmt.Sprintf("%s: decision table over %d atoms", fname, n), "discharged", p.c.Pos(fn.Pos()),
			fmt.Sprintf("all %d rows equal the specification table", 1<<n), "")
		o.Engine = "DT"
	}
}

func boolAtomCall(name, callee, callRe string) Atom {
	return Atom{Name: name, VM: func(val bool) VM { return callResult(name, callee, callRe, -1, avBool(val)) }}
}

func boolAtomCanon(name, rx string) Atom {
	return Atom{Name: name, VM: func(val bool) VM { return canonIs(name, rx, avBool(val)) }}
}

// include runs another property's rule function on the same program and
// imports the obligations of the listed rules under new rule ids (shared
// mechanisms, e.g. the validator's cache-key rules, serve several properties).
func (p *P) include(from propFunc, rules map[string]string, docs map[string]string) {
	if p.nested {
		return
	}
	sub := &P{c: p.c, r: NewReport(p.r.Prop, p.r.Tier), nested: true}
	from(sub)
	count := map[string]int{}
	for _, o := range sub.r.Obs {
		if to, ok := rules[o.Rule]; ok {
			n := *o
			n.Rule = to
			n.Construct = "[" + o.Rule + "] " + o.Construct
			p.r.Obs = append(p.r.Obs, &n)
			count[to]++
		}
	}
	p.r.Rows += 0
	for from, to := range rules {
		if _, ok := p.r.RuleDocs[to]; !ok {
			p.r.RuleDocs[to] = docs[to] + " (shared with " + from + ": " + sub.r.RuleDocs[from] + ")"
			p.r.Minima[to] = sub.r.Minima[from]
		}
	}
}

// paramIs binds the i-th parameter (counting the receiver) to av.
func paramIs(name string, i int, av AV) VM {
	return VM{Name: name, Match: func(fn *ssa.Function) map[ssa.Value]AV {
		if i >= len(fn.Params) {
			return nil
		}
		return map[ssa.Value]AV{fn.Params[i]: av}
	}}
}

// deref looks through the virtual inlining when a rule needs the defining
// instruction of a value: a parameter of a spliced helper is the caller's
// argument; a call to a spliced single-return helper is the returned value.
func deref(v ssa.Value) ssa.Value {
	for i := 0; i < 8; i++ {
		switch x := v.(type) {
		case *ssa.Parameter:
			site := helperSite[x.Parent()]
			if site == nil {
				return v
			}
			moved := false
			for k, pr := range x.Parent().Params {
				if pr == x && k < len(site.Call.Args) {
					v, moved = site.Call.Args[k], true
				}
			}
			if !moved {
				return v
			}
		case *ssa.Call:
			h := isInlined(x)
			if h == nil || h.Signature.Results().Len() != 1 {
				return v
			}
			rs := vfuncOf(h).rets[h]
			if len(rs) != 1 {
				return v
			}
			v = rs[0].Results[0]
		case *ssa.ChangeType:
			v = x.X
		default:
			return v
		}
	}
	return v
}

var theCtx *Ctx

// wrappers: in-repo functions (not spliced) that transitively, through static calls, call one of targets.
func wrappers(targets ...string) map[string]bool {
	t := map[string]bool{}
	for _, x := range targets {
		t[x] = true
	}
	w := map[string]bool{}
	if theCtx == nil {
		return w
	}
	changed := true
	for changed {
		changed = false
		for _, f := range theCtx.ProdFuncs() {
			n := funcName(f)
			if w[n] || t[n] || f.Parent() != nil {
				continue
			}
			for _, cs := range callSites(f, false) {
				c := cs.Callee()
				if t[c] || w[c] {
					w[n] = true
					changed = true
					break
				}
			}
		}
	}
	return w
}

// callSinksVia: like callSinks, but a call to an unexported in-repo wrapper that
// (transitively) performs the target call also counts as the effect.
func callSinksVia(fn *ssa.Function, label string, callees ...string) []Sink {
	out := callSinks(fn, label, callees...)
	w := wrappers(callees...)
	for _, cs := range callSites(fn, false) {
		c := cs.Callee()
		if w[c] && !mentioned[c] {
			out = append(out, Sink{cs.Instr, label + " (via " + c + ")"})
		}
	}
	return out
}

// mapWriteSinks: MapUpdate instructions on the map (canonical suffix) in fn, plus calls from fn to
// unexported in-repo helpers (same receiver) whose body updates that map — a write moved into a helper
// that could not be spliced (it defers an unlock, say) is still the write.
func mapWriteSinks(fn *ssa.Function, suffix, label string) []Sink {
	var out []Sink
	for _, mu := range mapUpdates(fn, suffix) {
		out = append(out, Sink{mu, label})
	}
	for _, cs := range callSites(fn, false) {
		h := cs.Common.StaticCallee()
		if h == nil || h.Blocks == nil || h.Pkg == nil || !strings.HasPrefix(h.Pkg.Pkg.Path(), modPath) || isInlined(callOf(cs.Instr)) != nil {
			continue
		}
		if n := h.Name(); n == "" || (n[0] >= 'A' && n[0] <= 'Z') {
			continue
		}
		if len(mapUpdates(h, suffix)) > 0 {
			out = append(out, Sink{cs.Instr, label + " (via " + funcName(h) + ")"})
		}
	}
	return out
}

func callOf(in ssa.Instruction) *ssa.Call {
	c, _ := in.(*ssa.Call)
	return c
}

func isZeroConst(v ssa.Value) bool {
	c, ok := v.(*ssa.Const)
	if !ok || c.Value == nil || c.Value.Kind() != constant.Int {
		return false
	}
	n, exact := constant.Int64Val(c.Value)
	return exact && n == 0
}
