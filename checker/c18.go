package main

import (
	"fmt"
	"strings"

	"golang.org/x/tools/go/ssa"
)

func init() { register("C18", c18) }

const lruPkg = "github.com/hashicorp/golang-lru/v2.Cache."

func cacheOrigin(recv string) string {
	w := strings.Contains(recv, "getChainsWantedAt(")
	d := strings.Contains(recv, "getChainsDiscoveredAt(")
	switch {
	case w && !d:
		return "wanted"
	case d && !w:
		return "discovered"
	}
	return "unknown"
}

// lruCalls lists calls of the given lru methods in fn with the origin of their receiver cache.
func lruCalls(fn *ssa.Function, methods ...string) []CallSite {
	var names []string
	for _, m := range methods {
		names = append(names, lruPkg+m)
	}
	return callsTo(fn, false, names...)
}

// portionChain: for a *chainPortion value created in this function, the chain stored into it.
func portionChain(v ssa.Value) (ssa.Value, bool) {
	a, ok := v.(*ssa.Alloc)
	if !ok {
		return nil, false
	}
	for _, r := range *a.Referrers() {
		if fa, ok := r.(*ssa.FieldAddr); ok && fieldName(fa.X.Type(), fa.Field) == "chain" {
			for _, rr := range *fa.Referrers() {
				if st, ok := rr.(*ssa.Store); ok && st.Addr == fa {
					return st.Val, true
				}
			}
		}
	}
	return nil, false
}

func c18(p *P) {
	r := p.r
	r.Explanation = "Static necessary conditions of chain-exchange caching: (R1) cache ROLES by provenance — which per-instance LRU (wanted / discovered, identified by the getter that produced it) each lookup, insertion, placeholder and promotion touches, and that the discovered insertion is control-dependent on a miss in the WANTED cache; (R2) key/value binding of every insertion (key = Key() of the very chain stored); (R3) admission: ValidationAccept is unreachable under failure injection of each admission check; (R4) pruning deletes only instances below the bound, in both maps; (R5) the two instance maps are only touched with the mutex held; (R6) own broadcasts are cached as wanted with all prefixes, every prefix loop runs the full range."
	r.NotDecided = "LRU retention/eviction behaviour under floods (runtime sizes and recency), pubsub delivery, the Key() function itself (C14)."
	r.Assumptions = []string{"AS6: go/types, go/ssa and the rule tables are correct", "hashicorp/golang-lru Cache methods behave as documented (Peek does not touch recency, ContainsOrAdd inserts only when absent)"}
	r.Rule("C18.R1", "cache roles: wanted consulted first; discovered insertion only on a wanted miss; placeholders only in wanted; promotion moves discovered → wanted", 10)
	r.Rule("C18.R2", "every cache insertion binds key = Key() of the chain stored (or re-inserts a value looked up under the same key)", 4)
	r.Rule("C18.R3", "admission: Accept only if decode ok, non-zero, valid, instance in window, base matches current input, timestamp in window", 8)
	r.Rule("C18.R4", "pruning deletes exactly instances below the bound, from both maps", 4)
	r.Rule("C18.R5", "instance maps accessed only under the mutex", 6)
	r.Rule("C18.R6", "own broadcasts cached as wanted with all prefixes; prefix loops visit every prefix", 4)

	getW := "chainexchange.PubSubChainExchange.getChainsWantedAt"
	getD := "chainexchange.PubSubChainExchange.getChainsDiscoveredAt"

	// getters use their own map and capacity (sibling agreement)
	for _, g := range []struct{ fn, m, capf string }{{getW, "chainsWanted", "maxWantedChainsPerInstance"}, {getD, "chainsDiscovered", "maxDiscoveredChainsPerInstance"}} {
		fn := p.fn("C18.R1", g.fn)
		if fn == nil {
			continue
		}
		var maps, caps []string
		allValues(fn, func(v ssa.Value) {
			c := canon(v)
			if strings.HasPrefix(c, "$0.chains") && !strings.Contains(c, "[") {
				maps = append(maps, c)
			}
			if strings.HasPrefix(c, "$0.") && strings.Contains(c, ".max") && strings.HasSuffix(c, "ChainsPerInstance") {
				caps = append(caps, c)
			}
		})
		ok := len(maps) > 0 && len(caps) > 0
		for _, m := range maps {
			if m != "$0."+g.m {
				ok = false
			}
		}
		for _, c := range caps {
			if !strings.HasSuffix(c, "."+g.capf) {
				ok = false
			}
		}
		r.Check(ok, "C18.R1", g.fn+": uses only its own map and capacity", p.c.Pos(fn.Pos()), fmt.Sprintf("maps %v caps %v", uniq(maps), uniq(caps)), fmt.Sprintf("getter touches maps %v capacities %v (expected %s / %s)", uniq(maps), uniq(caps), g.m, g.capf))
	}

	// ---- cacheAsDiscoveredChain
	if fn := p.fn("C18.R1", "chainexchange.PubSubChainExchange.cacheAsDiscoveredChain"); fn != nil {
		var wantedLookups []CallSite
		var discIns, wantedIns []Sink
		for _, cs := range lruCalls(fn, "Peek", "Get", "Contains") {
			if cacheOrigin(cs.Arg(0)) == "wanted" {
				wantedLookups = append(wantedLookups, cs)
			}
		}
		for _, cs := range lruCalls(fn, "Add", "ContainsOrAdd") {
			switch cacheOrigin(cs.Arg(0)) {
			case "discovered":
				discIns = append(discIns, Sink{cs.Instr, "insert into discovered cache"})
			case "wanted":
				wantedIns = append(wantedIns, Sink{cs.Instr, "insert into wanted cache"})
			default:
				r.Fail("C18.R1", "cacheAsDiscoveredChain: cache of unknown origin", p.c.InstrPos(cs.Instr), "insertion into a cache that is neither the wanted nor the discovered one: "+cs.Arg(0))
			}
		}
		where := p.c.Pos(fn.Pos())
		if !r.Check(len(wantedLookups) > 0, "C18.R1", "cacheAsDiscoveredChain: consults the WANTED cache", where, fmt.Sprintf("%d lookups on the wanted cache", len(wantedLookups)),
			"no lookup on the wanted cache: chains the node asked for are treated as unsolicited (never promoted, evictable)") {
		} else if len(discIns) == 0 || len(wantedIns) == 0 {
			r.Fail("C18.R1", "cacheAsDiscoveredChain: unsolicited chains go to discovered, asked-for chains replace their placeholder in wanted", where, fmt.Sprintf("insertions found: discovered=%d wanted=%d — a chain the node asked for must be stored in the WANTED cache (placeholder replacement), otherwise it is evictable by unsolicited chains", len(discIns), len(wantedIns)))
		} else {
			found := VM{Name: "wanted miss", Match: func(f *ssa.Function) map[ssa.Value]AV {
				out := map[ssa.Value]AV{}
				for _, cs := range wantedLookups {
					v := cs.Value()
					if cs.Common.Signature().Results().Len() == 1 {
						out[v] = avTrue
						continue
					}
					for _, ref := range *v.Referrers() {
						if ex, ok := ref.(*ssa.Extract); ok && ex.Index == 1 {
							out[ex] = avTrue
						}
					}
				}
				return out
			}}
			p.guarded("C18.R1", fn, discIns, found)
			miss := VM{Name: "wanted hit", Match: func(f *ssa.Function) map[ssa.Value]AV {
				out := found.Match(f)
				for k := range out {
					out[k] = avFalse
				}
				return out
			}}
			p.guarded("C18.R1", fn, wantedIns, miss, callResult("entry is a placeholder", "chainexchange.chainPortion.IsPlaceholder", "", -1, avFalse))
		}
		for _, s := range append(discIns, wantedIns...) {
			p.fullRangeLoop("C18.R6", "cacheAsDiscoveredChain: every prefix is cached", s.Instr, func(c string) bool { return strings.Contains(c, "Context.Err(") })
			break
		}
	}

	// ---- placeholders & IsPlaceholder provenance, key binding: whole package
	nIns := 0
	for _, f := range p.c.ProdFuncs() {
		if !strings.HasPrefix(funcName(f), "chainexchange.") {
			continue
		}
		for _, cs := range callsTo(f, false, "chainexchange.chainPortion.IsPlaceholder") {
			r.Check(cacheOrigin(cs.Arg(0)) == "wanted", "C18.R1", funcName(f)+": IsPlaceholder tested on a wanted-cache entry", p.c.InstrPos(cs.Instr), "entry comes from the wanted cache", "IsPlaceholder is tested on a value not read from the wanted cache: "+cs.Arg(0))
		}
		for _, cs := range lruCalls(f, "Add", "ContainsOrAdd") {
			nIns++
			a := cs.ArgValues()
			key, val := a[1], a[2]
			c := fmt.Sprintf("%s: insertion #%d key/value binding", funcName(f), nIns)
			where := p.c.InstrPos(cs.Instr)
			switch {
			case canon(val) == "chainexchange.chainPortionPlaceHolder":
				r.Check(cacheOrigin(cs.Arg(0)) == "wanted", "C18.R1", funcName(f)+": placeholder goes into the wanted cache", where, "wanted", "a placeholder is inserted into the "+cacheOrigin(cs.Arg(0))+" cache")
			default:
				if ch, ok := portionChain(val); ok {
					r.Check(canon(key) == "gpbft.ECChain.Key("+canon(ch)+")", "C18.R2", c, where, "key = Key(chain stored)", "key "+canon(key)+" is not the key of the chain stored ("+canon(ch)+")")
				} else if strings.Contains(canon(val), lruPkg+"Get(") || strings.Contains(canon(val), lruPkg+"Peek(") {
					r.Check(strings.Contains(canon(val), ", "+canon(key)+")"), "C18.R2", c, where, "re-inserts the value looked up under the same key", "value "+canon(val)+" was looked up under a different key than "+canon(key))
				} else {
					r.Fail("C18.R2", c, where, "cannot relate inserted value "+canon(val)+" to key "+canon(key))
				}
			}
		}
	}

	// ---- GetChainByInstance
	if fn := p.fn("C18.R1", "chainexchange.PubSubChainExchange.GetChainByInstance"); fn != nil {
		var wGet, dGet []Sink
		for _, cs := range lruCalls(fn, "Get", "Peek") {
			switch cacheOrigin(cs.Arg(0)) {
			case "wanted":
				wGet = append(wGet, Sink{cs.Instr, "wanted lookup"})
				r.Check(cs.Arg(1) == "$3", "C18.R2", "GetChainByInstance: wanted lookup uses the requested key", p.c.InstrPos(cs.Instr), "key parameter", "lookup key is "+cs.Arg(1))
			case "discovered":
				dGet = append(dGet, Sink{cs.Instr, "discovered lookup"})
				r.Check(cs.Arg(1) == "$3", "C18.R2", "GetChainByInstance: discovered lookup uses the requested key", p.c.InstrPos(cs.Instr), "key parameter", "lookup key is "+cs.Arg(1))
			}
		}
		p.before("C18.R1", fn, "wanted lookup", wGet, "discovered lookup", dGet)
		// both caches are for the requested instance
		for _, cs := range callsTo(fn, false, getW, getD) {
			r.Check(cs.Arg(2) == "$2", "C18.R2", "GetChainByInstance: caches of the requested instance", p.c.InstrPos(cs.Instr), "instance parameter", "cache fetched for "+cs.Arg(2))
		}
		found := constReturns(fn, 1, "true")
		if len(found) == 0 {
			r.Undecided("C18.R1", "GetChainByInstance: positive returns", "no return (chain, true) found")
		} else {
			notFound := union(
				callResult("found in wanted", lruPkg+"Get", `getChainsWantedAt`, 1, avFalse),
				callResult("found in discovered", lruPkg+"Get", `getChainsDiscoveredAt`, 1, avFalse))
			notFound.Name = "found in wanted or discovered"
			p.guarded("C18.R1", fn, found, notFound)
			ph := union(
				callResult("placeholder", "chainexchange.chainPortion.IsPlaceholder", "", -1, avTrue),
				callResult("found in discovered", lruPkg+"Get", `getChainsDiscoveredAt`, 1, avFalse))
			ph.Name = "wanted entry is not a placeholder (or discovered hit)"
			p.guarded("C18.R1", fn, found, ph)
			// returned chain is the chain of the looked-up portion
			for _, s := range found {
				rv := retValue(s.Instr.(*ssa.Return), 0)
				r.Check(strings.Contains(canon(rv), lruPkg+"Get(") && strings.HasSuffix(canon(rv), ".chain"), "C18.R2", "GetChainByInstance: returns the chain of the entry found", p.c.InstrPos(s.Instr), canon(rv), "returns "+canon(rv))
			}
		}
		// promotion
		var promo, rem []Sink
		for _, cs := range lruCalls(fn, "Add") {
			if cacheOrigin(cs.Arg(0)) == "wanted" && strings.Contains(cs.Arg(2), "getChainsDiscoveredAt") {
				promo = append(promo, Sink{cs.Instr, "promote to wanted"})
			}
		}
		for _, cs := range lruCalls(fn, "Remove") {
			if cacheOrigin(cs.Arg(0)) == "discovered" {
				rem = append(rem, Sink{cs.Instr, "remove from discovered"})
			}
		}
		r.Check(len(promo) > 0, "C18.R1", "GetChainByInstance: a discovered hit is promoted to the wanted cache", p.c.Pos(fn.Pos()), "wanted.Add(key, discovered entry)", "a chain found in discovered is not added to the wanted cache")
		if len(promo) > 0 {
			p.guarded("C18.R1", fn, promo, callResult("found in discovered", lruPkg+"Get", `getChainsDiscoveredAt`, 1, avFalse))
		}
		// a miss leaves a placeholder in wanted
		var phIns []Sink
		for _, cs := range lruCalls(fn, "Add", "ContainsOrAdd") {
			if cs.Arg(2) == "chainexchange.chainPortionPlaceHolder" {
				phIns = append(phIns, Sink{cs.Instr, "placeholder insertion"})
			}
		}
		r.Check(len(phIns) > 0, "C18.R1", "GetChainByInstance: a miss leaves a placeholder in the wanted cache", p.c.Pos(fn.Pos()), "present", "no placeholder is recorded for a wanted-but-unknown key")
		_ = rem
	}

	// ---- R3 admission
	p.gEquality("C18.R3")
	p.gOptionStores("C18.R3")
	p.gPrefixLoopAlwaysRuns("C18.R6")
	if fn := p.fn("C18.R3", "chainexchange.PubSubChainExchange.validatePubSubMessage"); fn != nil {
		// one snapshot of the node's progress decides range AND base: reading it twice lets the instance advance in between
		nProg := 0
		for _, in := range instrsOf(fn) {
			if call, ok := in.(*ssa.Call); ok && !call.Call.IsInvoke() && call.Call.StaticCallee() == nil && strings.HasSuffix(canon(call.Call.Value), ".progress") {
				nProg++
				r.Check(!inLoop(call), "C18.R3", "validatePubSubMessage: progress snapshot taken outside any loop", p.c.InstrPos(call), "once", "progress read inside a loop")
			}
		}
		r.Check(nProg == 1, "C18.R3", "validatePubSubMessage: admission decided on a single snapshot of the progress", p.c.Pos(fn.Pos()), "1 read", fmt.Sprintf("%d reads of the progress — the instance-range check and the base check can see different instances, so a broadcast contradicting the current input is admitted when the node advances in between", nProg))
		acceptC := fmt.Sprintf("%d:ValidationResult", p.constValue("github.com/libp2p/go-libp2p-pubsub", "ValidationAccept"))
		acc := constReturns(fn, 0, acceptC)
		for _, fs := range fieldStores(fn, false, "Message", "ValidatorData") {
			acc = append(acc, Sink{fs.Store, "ValidatorData set"})
		}
		if len(acc) < 2 {
			r.Undecided("C18.R3", "validatePubSubMessage: accept sinks", fmt.Sprintf("accept return / ValidatorData store not found (%d), accept const %s", len(acc), acceptC))
		} else {
			inst := `Message\.Instance$`
			p.guarded("C18.R3", fn, acc,
				errFails("decodes", "iface:EncodeDecoder.Decode", ""),
				callResult("chain non-zero", "gpbft.ECChain.IsZero", "", -1, avTrue),
				errFails("chain valid", "gpbft.ECChain.Validate", ""),
				cmpRel("instance ≥ current", inst, `#0\.ID$|\.ID$`, RelLT),
				cmpRel("instance ≤ current+lookahead", inst, `\.ID \+ \$0\.[a-zA-Z.]*maxInstanceLookahead\)$`, RelGT),
				cmpRel("timestamp ≥ now−maxAge", `Message\.Timestamp$`, `Now\(.*\)\) - .*maxTimestampAge`, RelLT),
				cmpRel("timestamp ≤ now", `Message\.Timestamp$`, `^time\.Time\.UnixMilli\(iface:Clock\.Now\(\$0\.[a-zA-Z.]*clk\)\)$`, RelGT),
			)
			base := union(
				cmpRel("", inst, `\.ID$`, RelEQ),
				canonIs("", `\.Input$`, avNonNil),
				callResult("", "gpbft.TipSet.Equal", "", -1, avFalse))
			base.Name = "base equals current input's base (when instance is current and input known)"
			p.guarded("C18.R3", fn, acc, base)
			// the base compared is the chain's base vs the current input's base
			for _, cs := range callsTo(fn, false, "gpbft.TipSet.Equal") {
				a0, a1 := cs.Arg(0), cs.Arg(1)
				ok := (strings.Contains(a0, "ECChain.Base(") && strings.Contains(a0, "Message.Chain") && strings.Contains(a1, "ECChain.Base(") && strings.Contains(a1, ".Input")) ||
					(strings.Contains(a1, "ECChain.Base(") && strings.Contains(a1, "Message.Chain") && strings.Contains(a0, "ECChain.Base(") && strings.Contains(a0, ".Input"))
				r.Check(ok, "C18.R3", "validatePubSubMessage: compares message base with current input base", p.c.InstrPos(cs.Instr), a0+" vs "+a1, "base comparison is between "+a0+" and "+a1)
			}
		}
	}

	// ---- R4 pruning
	if fn := p.fn("C18.R4", "chainexchange.PubSubChainExchange.RemoveChainsByInstance"); fn != nil {
		seen := map[string]bool{}
		// prune analyses the delete sites of f: each must delete the iterated key of a map, only when key < bound,
		// scanning the whole map. Returns (map expression, bound expression) pairs in f's own terms.
		var prune func(f *ssa.Function, label string) [][2]string
		prune = func(f *ssa.Function, label string) [][2]string {
			var out [][2]string
			for _, cs := range callsTo(f, false, "delete") {
				m := cs.Arg(0)
				keyRe := `^next\(range\(` + regexpQuote(m) + `\)\)#1$`
				// which value bounds the deleted keys? try every integer parameter
				bound := ""
				for i, prm := range f.Params {
					if !isInteger(prm.Type()) {
						continue
					}
					b := fmt.Sprintf(`^\$%d$`, i)
					eq, gt := cmpRel("", keyRe, b, RelEQ).Match(f), cmpRel("", keyRe, b, RelGT).Match(f)
					if len(eq) == 0 {
						continue
					}
					s1, s2 := RunSCCP(f, eq), RunSCCP(f, gt)
					if !s1.Reachable(cs.Instr) && !s2.Reachable(cs.Instr) {
						bound = fmt.Sprintf("$%d", i)
					}
				}
				r.Check(bound != "", "C18.R4", label+": delete from "+m+" only for keys strictly below the bound", p.c.InstrPos(cs.Instr), "unreachable when key ≥ "+bound, "an instance at or above the bound can be pruned (or no bound check at all)")
				r.Check(strings.HasPrefix(cs.Arg(1), "next(range("+m+"))"), "C18.R4", label+": deletes the iterated key of "+m, p.c.InstrPos(cs.Instr), cs.Arg(1), "deletes key "+cs.Arg(1)+" from "+m)
				p.fullRangeLoop("C18.R4", label+": scans every instance of "+m, cs.Instr, nil)
				out = append(out, [2]string{m, bound})
			}
			return out
		}
		for _, mb := range prune(fn, "RemoveChainsByInstance") {
			if mb[1] == "$2" {
				seen[mb[0]] = true
			}
		}
		// pruning delegated to a shared helper: map and bound are arguments
		for _, cs := range callSites(fn, false) {
			h := cs.Common.StaticCallee()
			if h == nil || h.Blocks == nil || h.Pkg == nil || !strings.HasPrefix(h.Pkg.Pkg.Path(), modPath+"/chainexchange") || helperSite[h] != nil {
				continue
			}
			if len(callsTo(h, false, "delete")) == 0 {
				continue
			}
			for _, mb := range prune(h, funcName(h)) {
				var mi, bi = -1, -1
				fmt.Sscanf(mb[0], "$%d", &mi)
				fmt.Sscanf(mb[1], "$%d", &bi)
				av := cs.Common.Args
				if mi >= 0 && bi >= 0 && mi < len(av) && bi < len(av) && canon(av[bi]) == "$2" {
					seen[canon(av[mi])] = true
				}
			}
		}
		// idiom: maps.DeleteFunc(m, func(k, _) bool { …; return k < instance })
		nStd := 0
		for _, cs := range callSites(fn, false) {
			if !strings.HasPrefix(cs.Callee(), "maps.DeleteFunc") || len(cs.Common.Args) != 2 {
				continue
			}
			mc, ok := cs.Common.Args[1].(*ssa.MakeClosure)
			if !ok {
				continue
			}
			pred, ok := mc.Fn.(*ssa.Function)
			if !ok || len(pred.Params) < 1 {
				continue
			}
			okPred := true
			for _, rel := range []Rel{RelEQ, RelGT} {
				inj := cmpRel("", `^\$0$`, `^\$\^2$`, rel).Match(pred)
				if len(inj) == 0 {
					okPred = false
					break
				}
				sp := RunSCCP(pred, inj)
				for _, ret := range returnsOf(pred) {
					if sp.Reachable(ret) && len(ret.Results) == 1 {
						if av := sp.get(ret.Results[0]); !(av.K == Cst && av.C.String() == "false") {
							okPred = false
						}
					}
				}
			}
			// and it does hold below the bound
			if inj := cmpRel("", `^\$0$`, `^\$\^2$`, RelLT).Match(pred); len(inj) > 0 {
				sp := RunSCCP(pred, inj)
				for _, ret := range returnsOf(pred) {
					if sp.Reachable(ret) && len(ret.Results) == 1 {
						if av := sp.get(ret.Results[0]); !(av.K == Cst && av.C.String() == "true") {
							okPred = false
						}
					}
				}
			}
			nStd++
			r.Check(okPred, "C18.R4", "RemoveChainsByInstance: delete from "+cs.Arg(0)+" exactly the keys strictly below the bound", p.c.InstrPos(cs.Instr), "maps.DeleteFunc predicate is key < instance", "the pruning predicate is not key < instance")
			if okPred {
				seen[cs.Arg(0)] = true
			}
		}
		if nStd > 0 {
			r.OK("C18.R4", "RemoveChainsByInstance: pruning through maps.DeleteFunc visits every instance", p.c.Pos(fn.Pos()), fmt.Sprintf("%d maps", nStd))
		}
		r.Check(seen["$0.chainsWanted"] && seen["$0.chainsDiscovered"], "C18.R4", "RemoveChainsByInstance: prunes both maps below the given instance", p.c.Pos(fn.Pos()), "wanted and discovered", fmt.Sprintf("pruned maps (with the instance parameter as bound): %v", seen))
	}

	// ---- R5 locks
	for _, f := range p.c.ProdFuncs() {
		if !strings.HasPrefix(funcName(f), "chainexchange.PubSubChainExchange.") {
			continue
		}
		for _, b := range f.Blocks {
			for _, in := range b.Instrs {
				fa, ok := in.(*ssa.FieldAddr)
				if !ok {
					continue
				}
				fnm := fieldName(fa.X.Type(), fa.Field)
				if (fnm != "chainsWanted" && fnm != "chainsDiscovered") || typeBase(fa.X.Type()) != "PubSubChainExchange" {
					continue
				}
				r.Check(p.heldAtOrByCallers(f, in, "&$0.mu", true, 0), "C18.R5", fmt.Sprintf("%s: %s accessed under mu", funcName(f), fnm), p.c.InstrPos(in), "Lock dominates the access, no Unlock in between", "instance map accessed without holding the mutex")
			}
		}
	}

	// ---- R6 own broadcasts
	if fn := p.fn("C18.R6", "chainexchange.PubSubChainExchange.cacheAsWantedChain"); fn != nil {
		var ins []Sink
		for _, cs := range lruCalls(fn, "Add", "ContainsOrAdd") {
			r.Check(cacheOrigin(cs.Arg(0)) == "wanted", "C18.R6", "cacheAsWantedChain: inserts into the wanted cache", p.c.InstrPos(cs.Instr), "wanted", "own chain cached into "+cacheOrigin(cs.Arg(0)))
			ins = append(ins, Sink{cs.Instr, "insert own prefix"})
		}
		if len(ins) == 0 {
			r.Undecided("C18.R6", "cacheAsWantedChain: insertion", "no insertion found")
		} else {
			p.fullRangeLoop("C18.R6", "cacheAsWantedChain: every prefix is cached", ins[0].Instr, func(c string) bool { return strings.Contains(c, "Context.Err(") })
			// an existing real entry is kept; a missing or placeholder entry is (re)written
			both := union(callResult("", lruPkg+"Peek", "", 1, avTrue), callResult("", "chainexchange.chainPortion.IsPlaceholder", "", -1, avFalse))
			both.Name = "entry missing or placeholder"
			p.guarded("C18.R6", fn, ins, both)
		}
		p.onlyCalledFrom("C18.R6", "chainexchange.PubSubChainExchange.cacheAsWantedChain", "chainexchange.PubSubChainExchange.Start")
	}
	if fn := p.fn("C18.R6", "chainexchange.PubSubChainExchange.Broadcast"); fn != nil {
		n := 0
		for _, b := range fn.Blocks {
			for _, in := range b.Instrs {
				if sel, ok := in.(*ssa.Select); ok {
					for _, st := range sel.States {
						if st.Send != nil && canon(st.Chan) == "$0.pendingCacheAsWanted" {
							n++
						}
					}
				}
				if snd, ok := in.(*ssa.Send); ok && canon(snd.Chan) == "$0.pendingCacheAsWanted" {
					n++
				}
			}
		}
		r.Check(n > 0, "C18.R6", "Broadcast: own message queued for caching as wanted", p.c.Pos(fn.Pos()), "send on pendingCacheAsWanted", "Broadcast no longer queues the message for the wanted cache")
	}
}

func uniq(in []string) []string {
	m := map[string]bool{}
	var out []string
	for _, s := range in {
		if !m[s] {
			m[s] = true
			out = append(out, s)
		}
	}
	return out
}

func regexpQuote(s string) string {
	r := strings.NewReplacer("$", `\$`, ".", `\.`, "(", `\(`, ")", `\)`, "[", `\[`, "]", `\]`, "*", `\*`, "+", `\+`)
	return r.Replace(s)
}
