package main

import (
	"fmt"
	"go/token"
	"sort"
	"strings"

	"golang.org/x/tools/go/ssa"
)

const inst = "gpbft.instance."
const qs = "gpbft.quorumState."

// phaseIs binds every load of path (e.g. "$1.Vote.Phase") to the named phase constant.
func (p *P) phaseIs(path, phase string) VM {
	return canonIs("", "^"+regexpQuote(path)+"$", avInt(p.phase(phase)))
}

func (p *P) curPhaseIs(phase string) VM { return p.phaseIs("$0.current.Instant.Phase", phase) }

var allPhases = []string{"INITIAL_PHASE", "QUALITY_PHASE", "CONVERGE_PHASE", "PREPARE_PHASE", "COMMIT_PHASE", "DECIDE_PHASE", "TERMINATED_PHASE"}

// ---------------- G1: one vote per sender per tally ----------------
func (p *P) gOneVote(rule string) {
	r := p.r
	p.onlyCalledFrom(rule, qs+"receiveInner", qs+"Receive", qs+"ReceiveEachPrefix")
	for _, name := range []string{qs + "Receive", qs + "ReceiveEachPrefix"} {
		fn := p.fn(rule, name)
		if fn == nil {
			continue
		}
		p.guarded(rule, fn, callSinks(fn, "vote counted", qs+"receiveInner"), callResult("first vote of this sender in this tally", qs+"receiveSender", "", 1, avFalse))
		for _, cs := range callsTo(fn, false, qs+"receiveSender") {
			r.Check(cs.Arg(1) == "$1", rule, name+": sender checked is the message's sender", p.c.InstrPos(cs.Instr), cs.Arg(1), "checks "+cs.Arg(1))
		}
		for _, cs := range callsTo(fn, false, qs+"receiveInner") {
			r.Check(cs.Arg(1) == "$1", rule, name+": vote counted for the checked sender", p.c.InstrPos(cs.Instr), cs.Arg(1), "counts for "+cs.Arg(1))
		}
	}
	if fn := p.fn(rule, qs+"receiveSender"); fn != nil {
		var eff []Sink
		for _, mu := range mapUpdates(fn, "$0.senders") {
			eff = append(eff, Sink{mu, "sender recorded"})
		}
		for _, fs := range fieldStores(fn, false, "quorumState", "sendersTotalPower") {
			eff = append(eff, Sink{fs.Store, "sender power added"})
		}
		eff = append(eff, constReturns(fn, 1, "true")...)
		if len(eff) < 3 {
			r.Undecided(rule, qs+"receiveSender: effects", "sender bookkeeping not found")
		} else {
			p.guarded(rule, fn, eff, canonIs("sender not seen before", `^\$0\.senders\[\$1\]#1$`, avTrue))
		}
		for _, mu := range mapUpdates(fn, "$0.senders") {
			r.Check(canon(mu.Key) == "$1", rule, qs+"receiveSender: records the sender", p.c.InstrPos(mu), canon(mu.Key), "records "+canon(mu.Key))
		}
	}
	if fn := p.fn(rule, qs+"receiveInner"); fn != nil {
		sts := fieldStores(fn, false, "chainSupport", "power")
		ok := len(sts) == 1 && strings.HasSuffix(canon(sts[0].Store.Val), ".power + $3)")
		r.Check(ok, rule, qs+"receiveInner: support += the sender's power, once", p.c.Pos(fn.Pos()), "candidate.power += power", "support accumulation changed")
		for _, mu := range mapUpdates(fn, "$0.chainSupport") {
			r.Check(canon(mu.Key) == "gpbft.ECChain.Key($2)", rule, qs+"receiveInner: support stored under the value's key", p.c.InstrPos(mu), canon(mu.Key), "stored under "+canon(mu.Key))
		}
		for _, cs := range callsTo(fn, false, "gpbft.IsStrongQuorum") {
			r.Check(strings.HasSuffix(cs.Arg(0), ".power") && cs.Arg(1) == "$0.powerTable.ScaledTotal", rule, qs+"receiveInner: quorum flag from support vs the table's total", p.c.InstrPos(cs.Instr), cs.Arg(0), "quorum flag from "+cs.Arg(0)+" / "+cs.Arg(1))
		}
	}
	if fn := p.fn(rule, "gpbft.convergeState.Receive"); fn != nil {
		var eff []Sink
		for _, b := range fn.Blocks {
			for _, in := range b.Instrs {
				if mu, ok := in.(*ssa.MapUpdate); ok {
					eff = append(eff, Sink{mu, "converge state updated"})
				}
			}
		}
		if len(eff) < 2 {
			r.Undecided(rule, "gpbft.convergeState.Receive: effects", "map updates not found")
		} else {
			p.guarded(rule, fn, eff,
				canonIs("sender not seen before", `^\$0\.senders\[\$1\]#1$`, avTrue),
				callResult("value non-bottom", "gpbft.ECChain.IsZero", "", -1, avTrue),
				paramIs("justification present", 5, avNil))
		}
	}
}

// ---------------- G2: decide only on strong COMMIT quorum / valid DECIDE ----------------
func (p *P) gDecidePaths(rule string) {
	r := p.r
	p.onlyCalledFrom(rule, inst+"beginDecide", inst+"tryCommit")
	p.onlyCalledFrom(rule, inst+"terminate", inst+"tryDecide")
	p.onlyCalledFrom(rule, inst+"skipToDecide", inst+"receiveOne")
	p.fieldWriters(rule, "instance", "terminationValue", inst+"terminate")
	if tc := p.fn(rule, inst+"tryCommit"); tc != nil {
		bd := callSinks(tc, "decide", inst+"beginDecide")
		p.guarded(rule, tc, bd,
			callResult("strong COMMIT quorum found", qs+"FindStrongQuorumValue", "", 1, avFalse),
			callResult("quorum value is not bottom", "gpbft.ECChain.IsZero", `FindStrongQuorumValue\(`, -1, avTrue))
		for _, cs := range callsTo(tc, false, qs+"FindStrongQuorumValue") {
			r.Check(cs.Arg(0) == "gpbft.instance.getRound($0, $1).committed", rule, inst+"tryCommit: quorum looked up in the COMMIT tally of the given round", p.c.InstrPos(cs.Instr), cs.Arg(0), "quorum from "+cs.Arg(0))
		}
		for _, cs := range callsTo(tc, false, inst+"beginDecide") {
			r.Check(cs.Arg(1) == "$1", rule, inst+"tryCommit: decides in the round of the quorum", p.c.InstrPos(cs.Instr), cs.Arg(1), "decides in round "+cs.Arg(1))
		}
		// value adopted = the quorum value, before beginDecide
		var vs []Sink
		for _, fs := range fieldStores(tc, false, "instance", "value") {
			vs = append(vs, Sink{fs.Store, "value adopted"})
			r.Check(strings.HasSuffix(canon(fs.Store.Val), "FindStrongQuorumValue(gpbft.instance.getRound($0, $1).committed)#0"), rule, inst+"tryCommit: value := the value with the strong COMMIT quorum", p.c.InstrPos(fs.Store), canon(fs.Store.Val), "value := "+canon(fs.Store.Val))
		}
		p.before(rule, tc, "value adopted", vs, "decide", bd)
	}
	if td := p.fn(rule, inst+"tryDecide"); td != nil {
		te := callSinks(td, "terminate", inst+"terminate")
		p.guarded(rule, td, te,
			callResult("strong DECIDE quorum value", qs+"FindStrongQuorumValue", "", 1, avFalse),
			callResult("strong DECIDE quorum signers", qs+"FindStrongQuorumFor", "", 1, avFalse))
		for _, cs := range callsTo(td, false, qs+"FindStrongQuorumValue", qs+"FindStrongQuorumFor") {
			r.Check(cs.Arg(0) == "$0.decision", rule, inst+"tryDecide: quorum taken from the DECIDE tally", p.c.InstrPos(cs.Instr), cs.Arg(0), "quorum from "+cs.Arg(0))
		}
		for _, cs := range callsTo(td, false, inst+"terminate") {
			r.Check(strings.HasPrefix(cs.Arg(1), inst+"buildJustification($0, "), rule, inst+"tryDecide: terminates with the justification just built", p.c.InstrPos(cs.Instr), cs.Arg(1), "terminates with "+cs.Arg(1))
		}
	}
	if ro := p.fn(rule, inst+"receiveOne"); ro != nil {
		sd := callSinks(ro, "skip to DECIDE", inst+"skipToDecide")
		for _, ph := range allPhases {
			if ph == "DECIDE_PHASE" {
				continue
			}
			g := p.phaseIs("$1.Vote.Phase", ph)
			g.Name = "message phase is DECIDE (not " + strings.TrimSuffix(ph, "_PHASE") + ")"
			p.guarded(rule, ro, sd, g)
		}
		for _, cs := range callsTo(ro, false, inst+"skipToDecide") {
			r.Check(cs.Arg(1) == "$1.Vote.Value" && cs.Arg(2) == "$1.Justification", rule, inst+"receiveOne: skips to DECIDE with the validated message's value and justification", p.c.InstrPos(cs.Instr), cs.Arg(1), "skips with "+cs.Arg(1)+", "+cs.Arg(2))
		}
		dr := callSinks(ro, "DECIDE vote counted", qs+"Receive")
		_ = dr
	}
	if te := p.fn(rule, inst+"terminate"); te != nil {
		for _, fs := range fieldStores(te, false, "instance", "terminationValue") {
			r.Check(canon(fs.Store.Val) == "$1", rule, inst+"terminate: reported decision is the justification passed in", p.c.InstrPos(fs.Store), canon(fs.Store.Val), "reports "+canon(fs.Store.Val))
		}
		for _, fs := range fieldStores(te, false, "instance", "value") {
			r.Check(canon(fs.Store.Val) == "$1.Vote.Value", rule, inst+"terminate: value := decided value", p.c.InstrPos(fs.Store), canon(fs.Store.Val), "value := "+canon(fs.Store.Val))
		}
	}
}

// ---------------- G5: messages checked before touching state ----------------
func (p *P) gReceiveGuards(rule string) {
	r := p.r
	ro := p.fn(rule, inst+"receiveOne")
	if ro == nil {
		return
	}
	var muts []Sink
	for _, cs := range callSites(ro, false) {
		switch cs.Callee() {
		case qs + "ReceiveEachPrefix", qs + "Receive", qs + "ReceiveJustification", "gpbft.convergeState.Receive", inst + "skipToDecide", inst + "tryCommit", inst + "tryCurrentPhase", inst + "updateCandidatesFromQuality", inst + "addCandidatePrefixes", inst + "getRound":
			muts = append(muts, Sink{cs.Instr, "state touched: " + strings.TrimPrefix(cs.Callee(), "gpbft.")})
		}
	}
	if len(muts) < 8 {
		r.Undecided(rule, inst+"receiveOne: state mutators", fmt.Sprintf("only %d mutator calls found", len(muts)))
		return
	}
	base := union(callResult("", "gpbft.ECChain.IsZero", `^gpbft\.ECChain\.IsZero\(\$1\.Vote\.Value\)$`, -1, avFalse), callResult("", "gpbft.ECChain.HasBase", "", -1, avFalse))
	base.Name = "value is bottom or starts at this instance's base"
	p.guarded(rule, ro, muts,
		cmpRel("message is for this instance", `^\$1\.Vote\.Instance$`, `^\$0\.current\.Instant\.ID$`, RelNE),
		callResult("supplemental data matches", "gpbft.SupplementalData.Eq", "", -1, avFalse),
		base,
		p.curPhaseIs("TERMINATED_PHASE").named("instance not terminated"),
	)
	for _, cs := range callsTo(ro, false, "gpbft.ECChain.HasBase") {
		r.Check(cs.Arg(0) == "$1.Vote.Value" && cs.Arg(1) == "gpbft.ECChain.Base($0.input)", rule, inst+"receiveOne: base compared with the base of this participant's input", p.c.InstrPos(cs.Instr), cs.Arg(1), "compares with "+cs.Arg(1))
	}
	for _, cs := range callsTo(ro, false, "gpbft.SupplementalData.Eq") {
		r.Check(cs.Arg(0) == "&$1.Vote.SupplementalData" && cs.Arg(1) == "$0.supplementalData", rule, inst+"receiveOne: supplemental data compared with the instance's", p.c.InstrPos(cs.Instr), cs.Arg(1), "compares "+cs.Arg(0)+" with "+cs.Arg(1))
	}
	// stale CONVERGE/PREPARE of earlier rounds are ignored
	prior := cmpRel("", `^\$1\.Vote\.Round$`, `^\$0\.current\.Instant\.Round$`, RelLT)
	for _, ph := range []string{"CONVERGE_PHASE", "PREPARE_PHASE"} {
		g := union(prior, p.phaseIs("$1.Vote.Phase", ph))
		g.Name = strings.TrimSuffix(ph, "_PHASE") + " of an earlier round is ignored"
		p.guarded(rule, ro, muts, g)
	}
	// each phase's vote goes to that phase's tally of the message's round
	want := map[string]string{
		qs + "ReceiveEachPrefix":      "$0.quality",
		"gpbft.convergeState.Receive": "gpbft.instance.getRound($0, $1.Vote.Round).converged",
	}
	for _, cs := range callSites(ro, false) {
		if w, ok := want[cs.Callee()]; ok {
			r.Check(cs.Arg(0) == w && cs.Arg(1) == "$1.Sender", rule, inst+"receiveOne: "+strings.TrimPrefix(cs.Callee(), "gpbft.")+" on the right tally for the message's sender", p.c.InstrPos(cs.Instr), cs.Arg(0), "tally "+cs.Arg(0)+" sender "+cs.Arg(1))
		}
	}
	tallyOf := map[string]string{"PREPARE_PHASE": "prepared", "COMMIT_PHASE": "committed", "DECIDE_PHASE": ""}
	for ph, field := range tallyOf {
		inj := p.phaseIs("$1.Vote.Phase", ph).Match(ro)
		for k, v := range p.curPhaseIs("PREPARE_PHASE").Match(ro) {
			inj[k] = v
		}
		s := RunSCCP(ro, inj)
		n := 0
		for _, cs := range callsTo(ro, false, qs+"Receive") {
			if !s.Reachable(cs.Instr) {
				continue
			}
			n++
			w := "gpbft.instance.getRound($0, $1.Vote.Round)." + field
			if field == "" {
				w = "$0.decision"
			}
			r.Check(cs.Arg(0) == w && cs.Arg(1) == "$1.Sender" && cs.Arg(2) == "$1.Vote.Value" && cs.Arg(3) == "$1.Signature", rule, inst+"receiveOne: "+strings.TrimSuffix(ph, "_PHASE")+" vote counted in its own tally", p.c.InstrPos(cs.Instr), cs.Arg(0), "counted in "+cs.Arg(0)+" ("+cs.Arg(1)+", "+cs.Arg(2)+")")
		}
		r.Check(n == 1, rule, inst+"receiveOne: exactly one tally receives a "+strings.TrimSuffix(ph, "_PHASE")+" vote", p.c.Pos(ro.Pos()), "1", fmt.Sprintf("%d tallies", n))
	}
}

func (v VM) named(n string) VM { v.Name = n; return v }

// ---------------- G6: proposal / candidate provenance ----------------
func (p *P) gProposalProvenance(rule string) {
	r := p.r
	p.fieldWriters(rule, "instance", "proposal", "gpbft.newInstance", inst+"tryQuality", inst+"tryConverge", inst+"tryCommit", inst+"skipToDecide", inst+"skipToRound")
	src := map[string]string{
		inst + "tryQuality":   `^gpbft\.quorumState\.FindStrongQuorumValueForLongestPrefixOf\(\$0\.quality, \$0\.input\)$`,
		inst + "tryConverge":  `FindBestTicketProposal\(gpbft\.instance\.getRound\(\$0, \$0\.current\.Instant\.Round\)\.converged, .*\)\.Chain$|^alloc\d+:gpbft\.ConvergeValue\.Chain$`,
		inst + "tryCommit":    `ListAllValues\(gpbft\.instance\.getRound\(\$0, \$1\)\.committed\)\[`,
		inst + "skipToDecide": `^\$1$`,
		inst + "skipToRound":  `^\$2$`,
	}
	for fnm, rx := range src {
		fn := p.fn(rule, fnm)
		if fn == nil {
			continue
		}
		for _, fs := range fieldStores(fn, false, "instance", "proposal") {
			r.Check(re(rx).MatchString(canon(fs.Store.Val)), rule, fnm+": proposal source", p.c.InstrPos(fs.Store), canon(fs.Store.Val), "proposal := "+canon(fs.Store.Val))
		}
	}
	p.onlyCalledFrom(rule, inst+"addCandidate", inst+"addCandidatePrefixes", inst+"tryConverge", inst+"tryCommit", inst+"skipToRound")
	// candidates grow by prefixes only of the longest input prefix with a strong QUALITY quorum
	// (construct-centric: whoever calls addCandidatePrefixes must pass exactly that value)
	{
		want := re(src[inst+"tryQuality"])
		n := 0
		for _, cs := range p.callersOf(inst + "addCandidatePrefixes") {
			if cs.Instr == nil || p.c.IsTestFile(cs.Fn.Pos()) {
				if cs.Instr == nil {
					r.Fail(rule, inst+"addCandidatePrefixes used as a value in "+funcName(cs.Fn), p.c.Pos(cs.Fn.Pos()), "cannot bound what is added to the candidates")
				}
				continue
			}
			n++
			a := cs.Arg(1)
			ok := want.MatchString(a)
			if !ok && a == "$0.proposal" {
				// the proposal just assigned from the QUALITY tally
				for _, fs := range fieldStores(rootOf(cs.Fn), false, "instance", "proposal") {
					if want.MatchString(canon(fs.Store.Val)) && dominates(fs.Store, cs.Instr) {
						ok = true
					}
				}
				for _, fs := range fieldStores(rootOf(cs.Fn), false, "instance", "proposal") {
					if !want.MatchString(canon(fs.Store.Val)) {
						ok = false
					}
				}
			}
			r.Check(ok, rule, fmt.Sprintf("%saddCandidatePrefixes called from %s: argument is the longest input prefix with strong QUALITY quorum", inst, funcName(rootOf(cs.Fn))), p.c.InstrPos(cs.Instr), a, "candidates extended with prefixes of "+a+" — not a value backed by a strong QUALITY quorum")
		}
		if n < 2 {
			r.Undecided(rule, inst+"addCandidatePrefixes: call sites", fmt.Sprintf("expected the QUALITY exit and the late-QUALITY update, found %d call sites", n))
		}
	}
	p.fieldWritersMap(rule, "$0.candidates", "gpbft.newInstance", inst+"addCandidate")
	if sr := p.fn(rule, inst+"skipToRound"); sr != nil {
		var eff []Sink
		eff = append(eff, callSinks(sr, "candidate added", inst+"addCandidate")...)
		for _, fs := range fieldStores(sr, false, "instance", "proposal") {
			eff = append(eff, Sink{fs.Store, "proposal swayed"})
		}
		if len(eff) < 2 {
			r.Undecided(rule, inst+"skipToRound: sway", "sway effects not found")
		} else {
			for _, ph := range []string{"COMMIT_PHASE", "DECIDE_PHASE", "CONVERGE_PHASE"} {
				g := p.phaseIs("$3.Vote.Phase", ph)
				g.Name = "sway only with a PREPARE-quorum justification (not " + strings.TrimSuffix(ph, "_PHASE") + ")"
				p.guarded(rule, sr, eff, g)
			}
			for _, cs := range callsTo(sr, false, inst+"addCandidate") {
				r.Check(cs.Arg(1) == "$2", rule, inst+"skipToRound: the swayed-to chain becomes a candidate", p.c.InstrPos(cs.Instr), cs.Arg(1), "adds "+cs.Arg(1))
			}
		}
		for _, cs := range callsTo(sr, false, inst+"beginConverge") {
			r.Check(cs.Arg(1) == "$3", rule, inst+"skipToRound: converges with the justification that triggered the skip", p.c.InstrPos(cs.Instr), cs.Arg(1), "converges with "+cs.Arg(1))
		}
	}
	if f := p.fn(rule, qs+"FindStrongQuorumValueForLongestPrefixOf"); f != nil {
		okAll := true
		var outs []string
		for _, ret := range returnsOf(f) {
			c := canon(retValue(ret, 0))
			outs = append(outs, c)
			if !(c == "$1" || strings.HasPrefix(c, "gpbft.ECChain.Prefix($1, ") || c == "gpbft.ECChain.BaseChain($1)") {
				okAll = false
			}
		}
		r.Check(okAll && len(outs) == 3, rule, qs+"FindStrongQuorumValueForLongestPrefixOf: returns only the preferred chain, one of its prefixes, or its base", p.c.Pos(f.Pos()), strings.Join(outs, " | "), "returns "+strings.Join(outs, " | "))
		// a non-base result requires a strong quorum for exactly that chain
		for _, ret := range returnsOf(f) {
			c := canon(retValue(ret, 0))
			if c == "gpbft.ECChain.BaseChain($1)" {
				continue
			}
			p.guardedAfter(rule, f, []Sink{{ret, "returns " + c}}, callResult("strong QUALITY quorum for that chain", qs+"HasStrongQuorumFor", `Key\(`+regexpQuote(c)+`\)\)$`, -1, avFalse))
		}
		// longest first: descending scan from Len-1
		for _, cs := range callsTo(f, false, "gpbft.ECChain.Prefix") {
			k := cs.Arg(1)
			r.Check(strings.HasPrefix(k, "phi((gpbft.ECChain.Len($1) - 1)|") && inLoop(cs.Instr), rule, qs+"FindStrongQuorumValueForLongestPrefixOf: scans prefixes from the longest down", p.c.InstrPos(cs.Instr), k, "scans "+k)
		}
	}
}

// fieldWritersMap: MapUpdates on the map with the given canonical form only in allowed functions.
func (p *P) fieldWritersMap(rule, mapCanon string, allowed ...string) {
	okSet := map[string]bool{}
	for _, a := range allowed {
		okSet[a] = true
	}
	n := 0
	for _, f := range p.c.ProdFuncs() {
		if !strings.HasPrefix(funcName(f), "gpbft.") {
			continue
		}
		for _, mu := range mapUpdates(f, strings.TrimPrefix(mapCanon, "$0")) {
			if canon(mu.Map) != mapCanon {
				continue
			}
			n++
			p.r.Check(okSet[funcName(f)], rule, "update of "+mapCanon+" in "+funcName(f), p.c.InstrPos(mu), "allowed", mapCanon+" may only be updated in "+strings.Join(allowed, ", "))
		}
	}
	if n == 0 {
		p.r.Undecided(rule, mapCanon+" writers", "no update found")
	}
}

// ---------------- G4: CONVERGE filter ----------------
func (p *P) gConvergeFilter(rule string) {
	r := p.r
	tc := p.fn(rule, inst+"tryConverge")
	if tc == nil {
		return
	}
	var filt *ssa.Function
	for _, a := range tc.AnonFuncs {
		if len(callsTo(a, false, inst+"isCandidate")) > 0 {
			filt = a
		}
	}
	fb := callsTo(tc, false, "gpbft.convergeState.FindBestTicketProposal")
	if filt == nil || len(fb) != 1 {
		r.Fail(rule, inst+"tryConverge: CONVERGE values are filtered", p.c.Pos(tc.Pos()), "no filter closure (isCandidate ∨ possibly-decided) passed to FindBestTicketProposal — any best-ticket value would be adopted")
		return
	}
	r.Check(strings.HasPrefix(fb[0].Arg(1), "closure:"+funcName(filt)), rule, inst+"tryConverge: FindBestTicketProposal is given the filter", p.c.InstrPos(fb[0].Instr), fb[0].Arg(1), "filter argument is "+fb[0].Arg(1))
	r.Check(fb[0].Arg(0) == "gpbft.instance.getRound($0, $0.current.Instant.Round).converged", rule, inst+"tryConverge: winner taken from the current round's CONVERGE state", p.c.InstrPos(fb[0].Instr), fb[0].Arg(0), "winner from "+fb[0].Arg(0))
	// table of the filter
	cand := callsTo(filt, false, inst+"isCandidate")
	reach := callsTo(filt, false, qs+"CouldReachStrongQuorumFor")
	if len(cand) != 1 || len(reach) != 1 {
		r.Fail(rule, "CONVERGE filter: shape", p.c.Pos(filt.Pos()), "expected isCandidate and CouldReachStrongQuorumFor in the filter")
		return
	}
	bad := 0
	for mask := 0; mask < 8; mask++ {
		c, prep, rc := mask&1 != 0, mask&2 != 0, mask&4 != 0
		inj := map[ssa.Value]AV{cand[0].Value(): avBool(c), reach[0].Value(): avBool(rc)}
		ph := "COMMIT_PHASE"
		if prep {
			ph = "PREPARE_PHASE"
		}
		for k, v := range canonIs("", `Justification\.Vote\.Phase$`, avInt(p.phase(ph))).Match(filt) {
			inj[k] = v
		}
		s := RunSCCP(filt, inj)
		got := false
		for _, ret := range returnsOf(filt) {
			if !s.Reachable(ret) {
				continue
			}
			av := s.get(ret.Results[0])
			if !(av.K == Cst && av.C.String() == "false") {
				got = true
			}
		}
		want := c || (prep && rc)
		r.Rows++
		if got != want {
			bad++
			r.Fail(rule, fmt.Sprintf("CONVERGE filter: row candidate=%v justifiedByPREPARE=%v couldBeDecided=%v", c, prep, rc), p.c.Pos(filt.Pos()), fmt.Sprintf("spec admits=%v, code admits=%v — a value that is neither a candidate nor possibly decided (PREPARE-justified ∧ reachable with ⅓ adversary) must not be adopted", want, got))
		}
	}
	if bad == 0 {
		r.OK(rule, "CONVERGE filter: decision table = candidate ∨ (PREPARE-justified ∧ could have been decided)", p.c.Pos(filt.Pos()), "8 rows")
	}
	r.Check(strings.HasSuffix(reach[0].Arg(1), "Key($0.Chain)") && reach[0].Arg(2) == "true", rule, "CONVERGE filter: possibly-decided test on the value's key with adversary slack", p.c.InstrPos(reach[0].Instr), reach[0].Arg(1)+", "+reach[0].Arg(2), "CouldReachStrongQuorumFor("+reach[0].Arg(1)+", "+reach[0].Arg(2)+")")
	r.Check(strings.Contains(reach[0].Arg(0), "getRound($^0, ($^0.current.Instant.Round - 1)).committed") || strings.Contains(reach[0].Arg(0), "getRound($0, ($0.current.Instant.Round - 1)).committed"), rule, "CONVERGE filter: possibly-decided test against the previous round's COMMIT tally", p.c.InstrPos(reach[0].Instr), reach[0].Arg(0), "tested against "+reach[0].Arg(0))
	// adoption
	bp := callSinks(tc, "PREPARE begun", inst+"beginPrepare")
	var adopt []Sink
	for _, f := range []string{"proposal", "value"} {
		for _, fs := range fieldStores(tc, false, "instance", f) {
			adopt = append(adopt, Sink{fs.Store, f + " adopted"})
		}
	}
	p.guarded(rule, tc, append(append([]Sink{}, bp...), adopt...),
		callResult("CONVERGE timeout elapsed", inst+"phaseTimeoutElapsed", "", -1, avFalse),
		callResult("a winner exists", "gpbft.ConvergeValue.IsValid", "", -1, avFalse),
		p.curPhaseIs("PREPARE_PHASE").named("in CONVERGE phase"))
	// the only nil-filter use is shouldSkipToRound
	for _, f := range p.c.ProdFuncs() {
		for _, cs := range callsTo(f, false, "gpbft.convergeState.FindBestTicketProposal") {
			if cs.Arg(1) == "nil" {
				r.Check(funcName(cs.Fn) == inst+"shouldSkipToRound", rule, "unfiltered FindBestTicketProposal only in shouldSkipToRound", p.c.InstrPos(cs.Instr), funcName(cs.Fn), "unfiltered best-ticket lookup in "+funcName(cs.Fn))
			}
		}
	}
}

// ---------------- G8: host chain truncated and validated ----------------
func (p *P) gBeginInstance(rule string) {
	r := p.r
	bi := p.fn(rule, "gpbft.Participant.beginInstance")
	if bi == nil {
		return
	}
	ni := callSinks(bi, "instance created", "gpbft.newInstance")
	p.guarded(rule, bi, ni,
		errFails("proposal obtained", "iface:Host.GetProposal", ""),
		callResult("proposal non-empty", "gpbft.ECChain.IsZero", "", -1, avTrue),
		errFails("proposal well-formed", "gpbft.ECChain.Validate", ""),
		errFails("committee available", "gpbft.cachedCommitteeProvider.GetCommittee", ""))
	maxLen := p.constValue("gpbft", "ChainMaxLen")
	for _, cs := range callsTo(bi, false, "gpbft.newInstance") {
		chain := cs.Arg(2)
		r.Check(chain == fmt.Sprintf("gpbft.ECChain.Prefix(iface:Host.GetProposal($0.host, $1, gpbft.Participant.Progress($0).Instant.ID)#1, %d)", maxLen-1), rule, "beginInstance: input = host proposal truncated to ChainMaxLen", p.c.InstrPos(cs.Instr), chain, "input chain is "+chain)
		r.Check(cs.Arg(1) == "gpbft.Participant.Progress($0).Instant.ID", rule, "beginInstance: instance id = current progress", p.c.InstrPos(cs.Instr), cs.Arg(1), "instance "+cs.Arg(1))
		r.Check(strings.HasSuffix(cs.Arg(3), "GetProposal($0.host, $1, gpbft.Participant.Progress($0).Instant.ID)#0"), rule, "beginInstance: supplemental data from the same proposal", p.c.InstrPos(cs.Instr), cs.Arg(3), "supplemental data "+cs.Arg(3))
		r.Check(strings.Contains(cs.Arg(4), "GetCommittee($0.committeeProvider, $1, gpbft.Participant.Progress($0).Instant.ID)#0.PowerTable"), rule, "beginInstance: power table of this instance's committee", p.c.InstrPos(cs.Instr), cs.Arg(4), "power table "+cs.Arg(4))
	}
	for _, cs := range callsTo(bi, false, "gpbft.ECChain.Validate") {
		r.Check(strings.HasPrefix(cs.Arg(0), "gpbft.ECChain.Prefix("), rule, "beginInstance: the truncated chain is what is validated", p.c.InstrPos(cs.Instr), cs.Arg(0), "validates "+cs.Arg(0))
	}
	if ni2 := p.fn(rule, "gpbft.newInstance"); ni2 != nil {
		p.guarded(rule, ni2, okReturns(ni2), callResult("input non-empty", "gpbft.ECChain.IsZero", "", -1, avTrue))
	}
}

// ---------------- G18: all quorum-backed prefixes become candidates ----------------
func (p *P) gCandidatePrefixes(rule string) {
	r := p.r
	fn := p.fn(rule, inst+"addCandidatePrefixes")
	if fn == nil {
		return
	}
	ac := callsTo(fn, false, inst+"addCandidate")
	if len(ac) != 1 {
		r.Fail(rule, inst+"addCandidatePrefixes: adds each prefix", p.c.Pos(fn.Pos()), fmt.Sprintf("expected one addCandidate call in the loop, found %d", len(ac)))
		return
	}
	p.fullRangeLoop(rule, inst+"addCandidatePrefixes: every proper prefix is visited (no early stop)", ac[0].Instr, nil)
	arg := ac[0].Arg(1)
	r.Check(arg == "gpbft.ECChain.Prefix($1, phi((gpbft.ECChain.Len($1) - 1)|↻))", rule, inst+"addCandidatePrefixes: visits Prefix(Len−1) … Prefix(1)", p.c.InstrPos(ac[0].Instr), arg, "adds "+arg)
	h := loopHeaderOf(ac[0].Instr.Block())
	if h != nil {
		exits, _ := loopExits(h)
		ok := false
		var cs []string
		for _, e := range exits {
			cs = append(cs, e.Cond)
			if e.Cond == "(phi((gpbft.ECChain.Len($1) - 1)|↻) > 0)" {
				ok = true
			}
		}
		r.Check(ok && len(exits) == 1, rule, inst+"addCandidatePrefixes: loop runs while l > 0", p.c.InstrPos(ac[0].Instr), strings.Join(cs, "; "), "loop condition is "+strings.Join(cs, "; "))
	}
	// unconditional within the body
	r.Check(ac[0].Instr.Block().Dominates(latchOf(h)), rule, inst+"addCandidatePrefixes: every visited prefix is added", p.c.InstrPos(ac[0].Instr), "add dominates the loop latch", "prefixes are added only conditionally")
}

func latchOf(h *ssa.BasicBlock) *ssa.BasicBlock {
	if h == nil {
		return nil
	}
	for _, pr := range h.Preds {
		if h.Dominates(pr) {
			return pr
		}
	}
	return h
}

// ---------------- G19: panic containment ----------------
func (p *P) gPanicContainment(rule string) {
	r := p.r
	for _, m := range []string{"StartInstanceAt", "ReceiveMessage", "ReceiveAlarm", "ValidateMessage", "PartiallyValidateMessage", "FullyValidateMessage"} {
		fn := p.fn(rule, "gpbft.Participant."+m)
		if fn == nil {
			continue
		}
		ok := false
		for _, cs := range callSites(fn, false) {
			d, isDefer := cs.Instr.(*ssa.Defer)
			if !isDefer {
				continue
			}
			// the recover must be installed before any state-machine code runs
			early := true
			for _, other := range callSites(fn, false) {
				if _, isD := other.Instr.(*ssa.Defer); isD {
					continue
				}
				c := other.Callee()
				if (strings.HasPrefix(c, "gpbft.instance.") || strings.HasPrefix(c, "gpbft.Participant.") || strings.HasPrefix(c, "gpbft.cachingValidator.") || strings.HasPrefix(c, "gpbft.messageQueue.")) && !dominates(d, other.Instr) {
					early = false
				}
			}
			if !early {
				continue
			}
			var cl *ssa.Function
			switch v := d.Call.Value.(type) {
			case *ssa.MakeClosure:
				cl, _ = v.Fn.(*ssa.Function)
			case *ssa.Function:
				cl = v
			}
			if cl == nil {
				continue
			}
			rec := callsTo(cl, false, "recover")
			conv := callsTo(cl, false, "gpbft.newPanicError")
			stores := 0
			for _, b := range cl.Blocks {
				for _, in := range b.Instrs {
					if st, isSt := in.(*ssa.Store); isSt {
						if _, isFV := st.Addr.(*ssa.FreeVar); isFV && strings.Contains(canon(st.Val), "newPanicError(") {
							stores++
						}
					}
				}
			}
			if len(rec) == 1 && len(conv) == 1 && stores == 1 {
				ok = true
			}
		}
		r.Check(ok, rule, "gpbft.Participant."+m+": a deferred recover converts panics into the returned error", p.c.Pos(fn.Pos()), "defer { if r := recover(); r != nil { err = newPanicError(r) } } in the entry block", "no deferred recover assigning the error result — a panic in the state machine would escape the API")
	}
	// the explicit panic sites of the state machine are enumerated
	n := 0
	var sites []string
	for _, f := range p.c.ProdFuncs() {
		if !strings.HasPrefix(funcName(f), "gpbft.instance.") && !strings.HasPrefix(funcName(f), "gpbft.quorumState.") && !strings.HasPrefix(funcName(f), "gpbft.convergeState.") {
			continue
		}
		for _, b := range f.Blocks {
			for _, in := range b.Instrs {
				if _, ok := in.(*ssa.Panic); ok {
					n++
					sites = append(sites, funcName(f))
				}
			}
		}
	}
	sort.Strings(sites)
	r.Check(n >= 9, rule, "explicit panic sites of the state machine are reachable only under the recovering API", "", fmt.Sprintf("%d sites: %s", n, strings.Join(uniq(sites), ", ")), "panic sites vanished")
	_ = token.ADD
}
