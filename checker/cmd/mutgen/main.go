// mutgen — systematic first-order mutants of go-f3 source files, used by
// tools/sweep.py to look for blind spots of the static rules. It only rewrites
// source text; it is not part of any registered check.
//
//	mutgen -repo /repo -out DIR file.go...   → DIR/<n>.go (mutated file) + DIR/index.jsonl
package main

import (
	"encoding/json"
	"flag"
	"fmt"
	"go/ast"
	"go/parser"
	"go/token"
	"os"
	"path/filepath"
	"strings"
)

type mut struct {
	ID   int    `json:"id"`
	File string `json:"file"`
	Line int    `json:"line"`
	Func string `json:"func"`
	Op   string `json:"op"`
	Old  string `json:"old"`
	New  string `json:"new"`
	Path string `json:"path"`
	FS   int    `json:"fstart"`
	FE   int    `json:"fend"`
	s, e int
	repl string
}

var swaps = map[token.Token][]token.Token{
	token.LSS: {token.LEQ}, token.LEQ: {token.LSS}, token.GTR: {token.GEQ}, token.GEQ: {token.GTR},
	token.EQL: {token.NEQ}, token.NEQ: {token.EQL}, token.LAND: {token.LOR}, token.LOR: {token.LAND},
	token.ADD: {token.SUB}, token.SUB: {token.ADD},
}

func main() {
	repo := flag.String("repo", "/repo", "")
	out := flag.String("out", "", "")
	flag.Parse()
	os.MkdirAll(*out, 0o755)
	idx, _ := os.Create(filepath.Join(*out, "index.jsonl"))
	defer idx.Close()
	enc := json.NewEncoder(idx)
	n := 0
	for _, rel := range flag.Args() {
		src, err := os.ReadFile(filepath.Join(*repo, rel))
		if err != nil {
			fmt.Fprintln(os.Stderr, err)
			os.Exit(2)
		}
		fset := token.NewFileSet()
		f, err := parser.ParseFile(fset, rel, src, parser.ParseComments)
		if err != nil {
			fmt.Fprintln(os.Stderr, err)
			os.Exit(2)
		}
		off := func(p token.Pos) int { return fset.Position(p).Offset }
		var ms []mut
		curS, curE := 0, 0
		add := func(fn, op string, s, e token.Pos, repl string) {
			ms = append(ms, mut{File: rel, Line: fset.Position(s).Line, Func: fn, Op: op, s: off(s), e: off(e), repl: repl, FS: curS, FE: curE})
		}
		for _, d := range f.Decls {
			fd, ok := d.(*ast.FuncDecl)
			if !ok || fd.Body == nil {
				continue
			}
			name := fd.Name.Name
			curS, curE = fset.Position(fd.Pos()).Line, fset.Position(fd.End()).Line
			if fd.Recv != nil && len(fd.Recv.List) > 0 {
				t := fd.Recv.List[0].Type
				if st, ok := t.(*ast.StarExpr); ok {
					t = st.X
				}
				if ix, ok := t.(*ast.IndexExpr); ok {
					t = ix.X
				}
				if id, ok := t.(*ast.Ident); ok {
					name = id.Name + "." + name
				}
			}
			text := func(a, b token.Pos) string { return string(src[off(a):off(b)]) }
			var stmtList func(list []ast.Stmt)
			stmtList = func(list []ast.Stmt) {
				for _, st := range list {
					switch s := st.(type) {
					case *ast.ExprStmt:
						add(name, "del-call", s.Pos(), s.End(), "")
					case *ast.AssignStmt:
						if s.Tok != token.DEFINE {
							add(name, "del-assign", s.Pos(), s.End(), "")
						} else if len(s.Lhs) == 2 && len(s.Rhs) == 1 {
							// x, err := f()  → keep (needs both)
						}
					case *ast.IncDecStmt:
						add(name, "del-incdec", s.Pos(), s.End(), "")
					case *ast.DeferStmt:
						add(name, "del-defer", s.Pos(), s.End(), "")
					case *ast.IfStmt:
						if s.Else == nil && s.Init == nil {
							add(name, "del-if", s.Pos(), s.End(), "")
						}
						if s.Else == nil && s.Init != nil {
							// if err := f(); err != nil { return } → keep the call, drop the guard
							if as, ok := s.Init.(*ast.AssignStmt); ok && as.Tok == token.DEFINE && len(as.Rhs) == 1 {
								blanks := strings.TrimSuffix(strings.Repeat("_, ", len(as.Lhs)), ", ")
								add(name, "del-guard", s.Pos(), s.End(), blanks+" = "+text(as.Rhs[0].Pos(), as.Rhs[0].End()))
							}
						}
						add(name, "neg-if", s.Cond.Pos(), s.Cond.End(), "!("+text(s.Cond.Pos(), s.Cond.End())+")")
					case *ast.BranchStmt:
						if s.Label == nil && s.Tok == token.BREAK {
							add(name, "break-continue", s.Pos(), s.End(), "continue")
						} else if s.Label == nil && s.Tok == token.CONTINUE {
							add(name, "continue-break", s.Pos(), s.End(), "break")
						}
					}
				}
			}
			ast.Inspect(fd.Body, func(nd ast.Node) bool {
				switch x := nd.(type) {
				case *ast.BlockStmt:
					stmtList(x.List)
				case *ast.CaseClause:
					stmtList(x.Body)
				case *ast.CommClause:
					stmtList(x.Body)
				case *ast.BinaryExpr:
					for _, t := range swaps[x.Op] {
						add(name, "op "+x.Op.String()+"→"+t.String(), x.OpPos, x.OpPos+token.Pos(len(x.Op.String())), t.String())
					}
					if x.Op == token.ADD || x.Op == token.SUB {
						if bl, ok := x.Y.(*ast.BasicLit); ok && bl.Kind == token.INT {
							add(name, "drop±k", x.Pos(), x.End(), text(x.X.Pos(), x.X.End()))
						}
					}
				case *ast.UnaryExpr:
					if x.Op == token.NOT {
						add(name, "drop-not", x.Pos(), x.End(), text(x.X.Pos(), x.X.End()))
					}
				case *ast.BasicLit:
					if x.Kind == token.INT && (x.Value == "0" || x.Value == "1" || x.Value == "2" || x.Value == "3") {
						v := int(x.Value[0] - '0')
						add(name, "lit+1", x.Pos(), x.End(), fmt.Sprint(v+1))
						if v > 0 {
							add(name, "lit-1", x.Pos(), x.End(), fmt.Sprint(v-1))
						}
					}
				case *ast.CallExpr:
					for i := 0; i+1 < len(x.Args); i++ {
						a, b := x.Args[i], x.Args[i+1]
						ta, tb := text(a.Pos(), a.End()), text(b.Pos(), b.End())
						if ta != tb {
							add(name, "swap-args", a.Pos(), b.End(), tb+text(a.End(), b.Pos())+ta)
						}
					}
				case *ast.ReturnStmt:
					// return x, err → nothing generic
				}
				return true
			})
		}
		for _, m := range ms {
			n++
			m.ID = n
			m.Old = string(src[m.s:m.e])
			m.New = m.repl
			m.Path = filepath.Join(*out, fmt.Sprintf("%d.go", n))
			mutated := append(append(append([]byte{}, src[:m.s]...), m.repl...), src[m.e:]...)
			if err := os.WriteFile(m.Path, mutated, 0o644); err != nil {
				fmt.Fprintln(os.Stderr, err)
				os.Exit(2)
			}
			if len(m.Old) > 200 {
				m.Old = m.Old[:200] + "…"
			}
			if len(m.New) > 200 {
				m.New = m.New[:200] + "…"
			}
			enc.Encode(m)
		}
	}
	fmt.Printf("%d mutants\n", n)
}
