package main

import (
	"encoding/json"
	"fmt"
	"os"
	"path/filepath"
	"sort"
	"strconv"
	"strings"
	"time"
)

// An Obligation is one rule instance decided on one construct.
type Obligation struct {
	Rule      string `json:"rule"`      // e.g. C10.R1
	Construct string `json:"construct"` // semantic key, e.g. "certstore.Store.Put: cert write ≺ latest pointer"
	Verdict   string `json:"verdict"`   // discharged | violated | undecided | known-finding
	Where     string `json:"where,omitempty"`
	Detail    string `json:"detail,omitempty"`
	Witness   string `json:"witness,omitempty"`
	Engine    string `json:"engine,omitempty"`
	Trivial   bool   `json:"-"`
}

type Report struct {
	Prop        string
	Tier        string
	Obs         []*Obligation
	Rows        int // table rows / assignments evaluated
	Notes       []string
	Assumptions []string
	Explanation string
	NotDecided  string
	RuleDocs    map[string]string
	Minima      map[string]int // rule -> minimum number of instances
	Analysed    struct {
		Packages, Functions, Blocks, CallSites int
	}
	Mutants []MutantResult
	start   time.Time
}

type MutantResult struct {
	Name   string `json:"mutant"`
	Rule   string `json:"expected_rule"`
	Killed bool   `json:"killed"`
	By     string `json:"reported"`
}

func NewReport(prop, tier string) *Report {
	return &Report{Prop: prop, Tier: tier, RuleDocs: map[string]string{}, Minima: map[string]int{}, start: time.Now()}
}

func (r *Report) Rule(id, doc string, min int) {
	r.RuleDocs[id] = doc
	r.Minima[id] = min
}

func (r *Report) add(rule, construct, verdict, where, detail, witness string) *Obligation {
	o := &Obligation{Rule: rule, Construct: construct, Verdict: verdict, Where: where, Detail: detail, Witness: witness}
	r.Obs = append(r.Obs, o)
	return o
}

func (r *Report) OK(rule, construct, where, detail string) {
	r.add(rule, construct, "discharged", where, detail, "")
}
func (r *Report) Fail(rule, construct, where, detail string) {
	r.add(rule, construct, "violated", where, detail, "")
}
func (r *Report) FailW(rule, construct, where, detail, witness string) {
	r.add(rule, construct, "violated", where, detail, witness)
}
func (r *Report) Undecided(rule, construct, detail string) {
	r.add(rule, construct, "undecided", "", detail, "")
}

// Check records a discharged or violated obligation.
func (r *Report) Check(ok bool, rule, construct, where, okDetail, failDetail string) bool {
	if ok {
		r.OK(rule, construct, where, okDetail)
	} else {
		r.Fail(rule, construct, where, failDetail)
	}
	return ok
}

type KnownFindings struct {
	Findings []struct {
		Property  string `json:"property"`
		Rule      string `json:"rule"`
		Construct string `json:"construct"`
		What      string `json:"what"`
	} `json:"findings"`
	Fixed []string `json:"fixed"`
}

func loadKnown(path string) KnownFindings {
	var k KnownFindings
	b, err := os.ReadFile(path)
	if err == nil {
		_ = json.Unmarshal(b, &k)
	}
	return k
}

// Finish enforces minima, writes the evidence file, prints the verdict lines
// and returns the process exit code.
func (r *Report) Finish(verifDir string, onlyConstruct string) int {
	// rule instance minima: a rule that matches fewer sites than confirmed by hand fails.
	count := map[string]int{}
	for _, o := range r.Obs {
		count[o.Rule]++
	}
	var rules []string
	for id := range r.RuleDocs {
		rules = append(rules, id)
	}
	sort.Strings(rules)
	for _, id := range rules {
		if count[id] < r.Minima[id] {
			r.Undecided(id, "instance-count", fmt.Sprintf("rule matched %d instances, fewer than the %d confirmed by reading — anchors moved or rule went vacuous", count[id], r.Minima[id]))
		}
	}
	known := loadKnown(filepath.Join(verifDir, "known_findings.json"))
	viol := 0
	var lines []string
	_ = os.MkdirAll(filepath.Join(verifDir, "evidence", "replay"), 0o755)
	// remove stale replay files of this property
	old, _ := filepath.Glob(filepath.Join(verifDir, "evidence", "replay", r.Prop+"-*.json"))
	for _, f := range old {
		_ = os.Remove(f)
	}
	nrep := 0
	for _, o := range r.Obs {
		if o.Verdict != "violated" && o.Verdict != "undecided" {
			continue
		}
		if onlyConstruct != "" && o.Rule+"|"+o.Construct != onlyConstruct {
			continue
		}
		isKnown := false
		for _, k := range known.Findings {
			if k.Property == r.Prop && k.Rule == o.Rule && k.Construct == o.Construct {
				isKnown = true
				lines = append(lines, fmt.Sprintf("KNOWN-FINDING: property=%s %s %s: %s", r.Prop, o.Rule, o.Construct, k.What))
				o.Verdict = "known-finding"
			}
		}
		if isKnown {
			continue
		}
		viol++
		nrep++
		rp := filepath.Join(verifDir, "evidence", "replay", fmt.Sprintf("%s-%d.json", r.Prop, nrep))
		b, _ := json.MarshalIndent(map[string]any{"property": r.Prop, "tier": r.Tier, "obligation": o, "rule_doc": r.RuleDocs[o.Rule],
			"replay": fmt.Sprintf("bin/f3lint -prop %s -only %q", r.Prop, o.Rule+"|"+o.Construct)}, "", " ")
		_ = os.WriteFile(rp, b, 0o644)
		fmt.Printf("%s [%s] %s %s\n    at %s\n    %s\n", strings.ToUpper(o.Verdict), o.Rule, o.Construct, "", o.Where, o.Detail)
		if o.Witness != "" {
			fmt.Printf("    witness: %s\n", o.Witness)
		}
		lines = append(lines, fmt.Sprintf("VIOLATION property=%s replay=%s", r.Prop, rp))
	}
	for _, m := range r.Mutants {
		if !m.Killed {
			viol++
			rp := filepath.Join(verifDir, "evidence", "replay", fmt.Sprintf("%s-selftest-%s.json", r.Prop, m.Name))
			b, _ := json.MarshalIndent(m, "", " ")
			_ = os.WriteFile(rp, b, 0o644)
			fmt.Printf("SELF-TEST FAILURE: registered mutant %s (rule %s) was not reported: %s\n", m.Name, m.Rule, m.By)
			lines = append(lines, fmt.Sprintf("VIOLATION property=%s replay=%s", r.Prop, rp))
		}
	}
	r.writeEvidence(verifDir, viol, count)
	disc := 0
	for _, o := range r.Obs {
		if o.Verdict == "discharged" {
			disc++
		}
	}
	fmt.Printf("%s %s: %d obligations, %d discharged, %d table rows, %d violations (%.1fs)\n", r.Prop, r.Tier, len(r.Obs), disc, r.Rows, viol, time.Since(r.start).Seconds())
	for _, l := range lines {
		fmt.Println(l)
	}
	if viol > 0 {
		return 1
	}
	return 0
}

func (r *Report) writeEvidence(verifDir string, viol int, count map[string]int) {
	disc := 0
	distinct := map[string]bool{}
	for _, o := range r.Obs {
		if o.Verdict == "discharged" {
			disc++
		}
		if !o.Trivial && o.Where != "" {
			distinct[o.Rule+"|"+o.Construct] = true
		}
	}
	var samples []any
	perRule := map[string]int{}
	for _, o := range r.Obs {
		if perRule[o.Rule] < 2 && len(samples) < 24 {
			perRule[o.Rule]++
			samples = append(samples, o)
		}
	}
	type ruleInfo struct {
		Rule      string `json:"rule"`
		Doc       string `json:"doc"`
		Instances int    `json:"instances"`
		Minimum   int    `json:"confirmed_minimum"`
	}
	var rinfo []ruleInfo
	var ids []string
	for id := range r.RuleDocs {
		ids = append(ids, id)
	}
	sort.Strings(ids)
	for _, id := range ids {
		rinfo = append(rinfo, ruleInfo{id, r.RuleDocs[id], count[id], r.Minima[id]})
	}
	if r.Explanation == "" {
		r.Explanation = "This run stopped before the property's rules were applied (see all_obligations for the reason); nothing was decided."
		r.NotDecided = "everything"
	}
	cov := map[string]any{
		"explanation":         r.Explanation + " NOT DECIDED by this check: " + r.NotDecided,
		"obligations":         len(r.Obs),
		"discharged":          disc,
		"evaluations":         len(r.Obs) + r.Rows,
		"distinct_nontrivial": len(distinct),
		"rule":                "one obligation per (rule, construct) pair; constructs are resolved program entities (function, call site, field store, table row), found by type-resolved SSA matching in /repo's current source; an obligation is non-trivial when its sink/guard construct was actually located in the code (has a source position); table rows are the assignments enumerated by conditional constant propagation",
		"samples":             samples,
		"rules":               rinfo,
		"table_rows":          r.Rows,
		"checker_cmd":         fmt.Sprintf("bin/f3lint -prop %s -tier %s", r.Prop, r.Tier),
		"trusted_base":        []string{"go/types and go/ssa (x/tools v0.50.0)", "the rule tables in /verif/checker/c*.go (spec side of each comparison)", "sccp.go abstract evaluator", "lin.go linear-form normaliser"},
		"analysed":            r.Analysed,
		"all_obligations":     r.Obs,
		"exhaustive":          false,
	}
	if len(r.Mutants) > 0 {
		cov["self_test_mutants"] = r.Mutants
	}
	if len(r.Notes) > 0 {
		cov["notes"] = r.Notes
	}
	// The analysis is deterministic; VERIF_SEED is recorded, it selects nothing.
	seed, _ := strconv.Atoi(os.Getenv("VERIF_SEED"))
	if r.Assumptions == nil {
		// the run stopped before the property's rules were reached (load failure, checker panic)
		r.Assumptions = []string{"AS6: go/types, go/ssa and the rule tables are correct"}
	}
	if samples == nil {
		samples = []any{}
	}
	if rinfo == nil {
		rinfo = []ruleInfo{}
	}
	if r.Obs == nil {
		r.Obs = []*Obligation{}
	}
	ev := map[string]any{
		"property_id": r.Prop,
		"tier":        r.Tier,
		"seed":        seed,
		"level":       "other",
		"coverage":    cov,
		"assumptions": r.Assumptions,
		"wall_s":      time.Since(r.start).Seconds(),
		"violations":  viol,
	}
	b, _ := json.MarshalIndent(ev, "", " ")
	_ = os.MkdirAll(filepath.Join(verifDir, "evidence"), 0o755)
	_ = os.WriteFile(filepath.Join(verifDir, "evidence", r.Prop+".json"), b, 0o644)
}
