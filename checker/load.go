package main

import (
	"fmt"
	"go/ast"
	"go/token"
	"go/types"
	"os"
	"sort"
	"strings"

	"golang.org/x/tools/go/packages"
	"golang.org/x/tools/go/ssa"
	"golang.org/x/tools/go/ssa/ssautil"
)

const modPath = "github.com/filecoin-project/go-f3"

// Ctx is the loaded, type-checked program plus its SSA form.
type Ctx struct {
	Repo   string
	Tier   string
	Fset   *token.FileSet
	Pkgs   map[string]*packages.Package // by import path
	Prog   *ssa.Program
	SPkgs  map[string]*ssa.Package
	Funcs  []*ssa.Function // every in-repo source function incl. anonymous ones
	byName map[string]*ssa.Function
	NPkgs  int
	Tests  bool
}

// Load type-checks every package of the module rooted at repo and builds SSA
// for the in-repo packages (dependencies come from export data).
func Load(repo, tier string, tests bool) (*Ctx, error) {
	env := append(os.Environ(), "GOFLAGS=-mod=mod", "GOPROXY=off", "GOWORK=off")
	cfg := &packages.Config{Mode: packages.LoadSyntax, Dir: repo, Tests: tests, Env: env}
	// F3LINT_OVERLAY=<repo-relative file>=<replacement file>[,...]: analyse a variant of the tree
	// without copying it (used only by the mutation sweep tools, never by registered checks).
	if ov := os.Getenv("F3LINT_OVERLAY"); ov != "" {
		cfg.Overlay = map[string][]byte{}
		for _, kv := range strings.Split(ov, ",") {
			parts := strings.SplitN(kv, "=", 2)
			if len(parts) != 2 {
				return nil, fmt.Errorf("bad F3LINT_OVERLAY entry %q", kv)
			}
			b, err := os.ReadFile(parts[1])
			if err != nil {
				return nil, fmt.Errorf("overlay: %w", err)
			}
			cfg.Overlay[repo+"/"+parts[0]] = b
		}
	}
	pkgs, err := packages.Load(cfg, "./...")
	if err != nil {
		return nil, fmt.Errorf("load: %w", err)
	}
	if len(pkgs) == 0 {
		return nil, fmt.Errorf("load: zero packages")
	}
	nerr := 0
	for _, p := range pkgs {
		for _, e := range p.Errors {
			fmt.Fprintf(os.Stderr, "load error: %s: %v\n", p.PkgPath, e)
			nerr++
		}
	}
	if nerr > 0 {
		return nil, fmt.Errorf("load: %d package errors (type-check failure makes every rule undecided)", nerr)
	}
	c := &Ctx{Repo: repo, Tier: tier, Pkgs: map[string]*packages.Package{}, SPkgs: map[string]*ssa.Package{}, byName: map[string]*ssa.Function{}, Tests: tests}
	prog, spkgs := ssautil.Packages(pkgs, ssa.InstantiateGenerics)
	prog.Build()
	c.Prog = prog
	c.Fset = prog.Fset
	for i, p := range pkgs {
		// With Tests, prefer the test variant "p [p.test]" for p (it contains p's own files too).
		id := p.PkgPath
		if tests && strings.Contains(p.ID, "[") && !strings.HasSuffix(p.PkgPath, "_test") && !strings.HasSuffix(p.PkgPath, ".test") {
			c.Pkgs[id] = p
			c.SPkgs[id] = spkgs[i]
			continue
		}
		if _, ok := c.Pkgs[id]; !ok {
			c.Pkgs[id] = p
			c.SPkgs[id] = spkgs[i]
		}
	}
	c.NPkgs = len(c.Pkgs)
	seen := map[*ssa.Function]bool{}
	var add func(f *ssa.Function)
	add = func(f *ssa.Function) {
		if f == nil || seen[f] || f.Blocks == nil {
			return
		}
		seen[f] = true
		c.Funcs = append(c.Funcs, f)
		for _, a := range f.AnonFuncs {
			add(a)
		}
	}
	// with Tests, a package appears twice (plain and "[p.test]" variant that also contains the plain files): analyse only the variant
	hasVariant := map[string]bool{}
	for _, p := range pkgs {
		if strings.Contains(p.ID, "[") && !strings.HasSuffix(p.PkgPath, "_test") {
			hasVariant[p.PkgPath] = true
		}
	}
	kept := map[*ssa.Package]bool{}
	for i, sp := range spkgs {
		if sp == nil {
			continue
		}
		if tests && hasVariant[pkgs[i].PkgPath] && !strings.Contains(pkgs[i].ID, "[") {
			continue
		}
		if strings.HasSuffix(pkgs[i].PkgPath, ".test") {
			continue
		}
		kept[sp] = true
		for _, m := range sp.Members {
			switch m := m.(type) {
			case *ssa.Function:
				add(m)
			case *ssa.Type:
				for _, t := range []types.Type{m.Type(), types.NewPointer(m.Type())} {
					ms := prog.MethodSets.MethodSet(t)
					for j := 0; j < ms.Len(); j++ {
						add(prog.MethodValue(ms.At(j)))
					}
				}
			}
		}
	}
	// instantiations of in-repo generic functions/methods (e.g. WriteAheadLog[walEntry].Append)
	for f := range ssautil.AllFunctions(prog) {
		o := f.Origin()
		if o == nil || f.Blocks == nil || len(f.TypeArgs()) == 0 {
			continue
		}
		if o.Pkg == nil || !strings.HasPrefix(o.Pkg.Pkg.Path(), modPath) {
			continue
		}
		if !kept[o.Pkg] {
			// instantiation of a generic from a package copy we skip — except the production instantiation
			// (type arguments declared outside _test.go files), which exists only on the plain copy because its
			// user imports the plain package (e.g. WriteAheadLog[walEntry] used by the root package)
			prod := true
			for _, ta := range f.TypeArgs() {
				t := ta
				if pt, ok := t.(*types.Pointer); ok {
					t = pt.Elem()
				}
				if nt, ok := t.(*types.Named); ok && nt.Obj() != nil {
					pos := prog.Fset.Position(nt.Obj().Pos())
					if strings.HasSuffix(pos.Filename, "_test.go") {
						prod = false
					}
				}
			}
			if !prod {
				continue
			}
		}
		add(f)
	}
	sort.Slice(c.Funcs, func(i, j int) bool {
		a, b := funcName(c.Funcs[i]), funcName(c.Funcs[j])
		if a != b {
			return a < b
		}
		return c.Funcs[i].String() < c.Funcs[j].String()
	})
	for _, f := range c.Funcs {
		if f.Synthetic != "" && len(f.TypeArgs()) == 0 {
			continue
		}
		n := funcName(f)
		if old, ok := c.byName[n]; ok {
			// prefer an instantiation whose type arguments are production types over the generic body or a test
			// instantiation; among those, the one with a real body (not a thin wrapper)
			score := func(g *ssa.Function) int {
				s := 0
				if len(g.TypeArgs()) > 0 && !strings.Contains(g.String(), "_test") && !strings.Contains(g.String(), "test.") {
					prod := true
					for _, ta := range g.TypeArgs() {
						if nt, ok := ta.(*types.Named); ok && nt.Obj() != nil && c.IsTestFile(nt.Obj().Pos()) {
							prod = false // instantiated with a type declared in a _test.go file
						}
						if pt, ok := ta.(*types.Pointer); ok {
							if nt, ok := pt.Elem().(*types.Named); ok && nt.Obj() != nil && c.IsTestFile(nt.Obj().Pos()) {
								prod = false
							}
						}
					}
					if prod {
						s += 1000000
					}
				}
				for _, b := range g.Blocks {
					s += len(b.Instrs)
				}
				return s
			}
			if score(old) >= score(f) {
				continue
			}
		}
		c.byName[n] = f
	}
	return c, nil
}

// shortPkg returns the module-relative package path ("" → "f3").
func shortPkg(p *types.Package) string {
	if p == nil {
		return ""
	}
	path := p.Path()
	if path == modPath {
		return "f3"
	}
	if strings.HasPrefix(path, modPath+"/") {
		return strings.TrimPrefix(path, modPath+"/")
	}
	return path
}

// funcName is the stable, position-free name used for anchors:
// "gpbft.instance.tryPrepare", "certs.ValidateFinalityCertificates",
// "gpbft.instance.tryConverge$1" for the first closure.
func funcName(f *ssa.Function) string {
	if f == nil {
		return "<nil>"
	}
	if o := f.Origin(); o != nil {
		f = o
	}
	if f.Parent() != nil {
		// index among the parent's anonymous functions
		for i, a := range f.Parent().AnonFuncs {
			if a == f {
				return fmt.Sprintf("%s$%d", funcName(f.Parent()), i+1)
			}
		}
		return funcName(f.Parent()) + "$?"
	}
	pkg := ""
	if f.Pkg != nil {
		pkg = shortPkg(f.Pkg.Pkg)
	} else if obj := f.Object(); obj != nil {
		pkg = shortPkg(obj.Pkg())
	}
	if recv := f.Signature.Recv(); recv != nil {
		return pkg + "." + typeBase(recv.Type()) + "." + f.Name()
	}
	return pkg + "." + f.Name()
}

func typeBase(t types.Type) string {
	for {
		switch x := t.(type) {
		case *types.Pointer:
			t = x.Elem()
			continue
		case *types.Named:
			return x.Obj().Name()
		case *types.Alias:
			return x.Obj().Name()
		}
		return t.String()
	}
}

// shortType renders a type with module-relative package qualifiers.
func shortType(t types.Type) string {
	return types.TypeString(t, func(p *types.Package) string { return shortPkg(p) })
}

// Fn resolves an anchor; nil when missing (callers turn that into "undecided").
func (c *Ctx) Fn(name string) *ssa.Function { mention(name); return c.byName[name] }

func (c *Ctx) Pos(p token.Pos) string {
	if !p.IsValid() {
		return "-"
	}
	pos := c.Fset.Position(p)
	return fmt.Sprintf("%s:%d", strings.TrimPrefix(pos.Filename, c.Repo+"/"), pos.Line)
}

func (c *Ctx) InstrPos(in ssa.Instruction) string {
	if in == nil {
		return "-"
	}
	p := in.Pos()
	if !p.IsValid() {
		if v, ok := in.(ssa.Value); ok {
			for _, r := range *v.Referrers() {
				if r.Pos().IsValid() {
					p = r.Pos()
					break
				}
			}
		}
	}
	if !p.IsValid() && in.Parent() != nil {
		return c.Pos(in.Parent().Pos()) + "(fn)"
	}
	return c.Pos(p)
}

// InRepo reports whether f is a source function of the module (not a test file unless tests are loaded).
func (c *Ctx) IsTestFile(p token.Pos) bool {
	return strings.HasSuffix(c.Fset.Position(p).Filename, "_test.go")
}

// ProdFuncs are the functions declared outside _test.go files.
func (c *Ctx) ProdFuncs() []*ssa.Function {
	var out []*ssa.Function
	for _, f := range c.Funcs {
		if (f.Synthetic != "" && len(f.TypeArgs()) == 0) || c.IsTestFile(f.Pos()) {
			continue
		}
		if helperSite[f] != nil {
			continue // spliced into its caller: visited through the caller
		}
		out = append(out, f)
	}
	return out
}

// FileOf returns the syntax tree that declares f's package file name (module-relative).
func (c *Ctx) Files(pkgShort string) []*ast.File {
	path := modPath
	if pkgShort != "f3" {
		path = modPath + "/" + pkgShort
	}
	p := c.Pkgs[path]
	if p == nil {
		return nil
	}
	return p.Syntax
}

func (c *Ctx) Pkg(pkgShort string) *packages.Package {
	path := modPath
	if pkgShort != "f3" {
		path = modPath + "/" + pkgShort
	}
	return c.Pkgs[path]
}
