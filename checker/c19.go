package main

import (
	"fmt"
	"go/token"
	"strings"

	"golang.org/x/tools/go/ssa"
)

func init() { register("C19", c19) }

// renameLin maps symbols through f (symbols mapped to the same name are merged).
func renameLin(l Lin, f func(string) string) Lin {
	out := Lin{C: l.C, T: map[string]int64{}}
	for s, c := range l.T {
		out.T[f(s)] += c
	}
	for s, c := range out.T {
		if c == 0 {
			delete(out.T, s)
		}
	}
	return out
}

func manifestSyms(s string) string {
	switch {
	case strings.HasSuffix(s, ".CommitteeLookback"):
		return "Lookback"
	case strings.HasSuffix(s, ".InitialInstance"):
		return "Initial"
	case strings.HasSuffix(s, ".BootstrapEpoch"):
		return "BootstrapEpoch"
	case strings.HasSuffix(s, ".EC.Finality"):
		return "Finality"
	case s == "$2":
		return "instance"
	}
	return s
}

// mustPassBefore: under the injection, can a Return be reached from the entry
// along executable edges without executing any of the `via` instructions?
func mustPass(fn *ssa.Function, inj map[ssa.Value]AV, via []ssa.Instruction) (bool, string) {
	s := RunSCCP(fn, inj)
	block := map[*VNode]bool{}
	for _, v := range via {
		if n := s.vf.nodeOf[v]; n != nil {
			block[n] = true
		}
	}
	seen := map[*VNode]bool{}
	q := []*VNode{s.entryNode()}
	for len(q) > 0 {
		cur := q[0]
		q = q[1:]
		if cur == nil || seen[cur] || block[cur] {
			continue
		}
		seen[cur] = true
		if len(cur.Instrs) > 0 && cur.Fn == fn {
			if _, ok := cur.Instrs[len(cur.Instrs)-1].(*ssa.Return); ok && cur.Block != fn.Recover {
				return false, fmt.Sprintf("node n%d returns without passing through it", cur.Idx)
			}
		}
		for _, su := range cur.Succs {
			if s.edge[[2]int{cur.Idx, su.Idx}] {
				q = append(q, su)
			}
		}
	}
	return true, ""
}

func c19(p *P) {
	r := p.r
	r.Explanation = "Static necessary conditions of a faithful test oracle: (R1) sim validateDecision returns nil only past the instance/phase/round/non-empty/base checks, a strong-quorum test whose operands are the signers' scaled power and the scaled total OF THIS INSTANCE'S power table, and aggregate verification over the decision's own payload (failure-injection SCCP + provenance of every argument); (R2) an invalid decision is always recorded, recorded errors are surfaced by Err() and checked by Run, consensus comparison covers every non-excluded participant; (R3) sibling agreement, as linear forms, between the node's and certchain's committee look-back (certificate instance = instance − Lookback, same bootstrap threshold and epoch, head of that certificate)."
	r.NotDecided = "that simulations actually exercise these paths; cryptographic soundness of the signing backend; AS5 (certchain.certificates[k] is the certificate of instance Initial+k) is declared, its appends are only checked to be in Generate/Validate."
	r.Assumptions = []string{"AS2: Verify/VerifyAggregate are sound", "AS5: certchain.certificates[k] is the certificate of instance InitialInstance+k", "AS6: go/types, go/ssa and the rule tables are correct"}
	r.Rule("C19.R1", "sim oracle: decision accepted only past all checks; quorum threshold derived from the instance's power table", 12)
	r.Rule("C19.R2", "sim: invalid decisions recorded, surfaced and checked; consensus compares every non-excluded participant", 7)
	r.Rule("C19.R3", "certchain committee look-back = node committee look-back (linear forms)", 5)
	p.include(c08, map[string]string{"C08.R1": "C19.R4", "C08.R4": "C19.R4b"}, map[string]string{"C19.R4": "the oracle's strong-quorum predicate is exact", "C19.R4b": "the oracle's signer weights are scaled exactly"})

	// ---------------- R1
	if fn := p.fn("C19.R1", "sim.ECInstance.validateDecision"); fn != nil {
		acc := okReturns(fn)
		if len(acc) == 0 {
			r.Undecided("C19.R1", "sim.ECInstance.validateDecision: accept", "no nil-error return found")
		} else {
			p.guarded("C19.R1", fn, acc,
				cmpRel("instance matches", `^\$0\.Instance$`, `^\$1\.Vote\.Instance$`, RelNE),
				cmpRel("phase is DECIDE", `^\$1\.Vote\.Phase$`, fmt.Sprintf(`^%d:Phase$`, p.constValue("gpbft", "DECIDE_PHASE")), RelNE),
				cmpRel("round is 0", `^\$1\.Vote\.Round$`, `^0$`, RelNE),
				callResult("value non-empty", "gpbft.ECChain.IsZero", `\$1\.Vote\.Value`, -1, avTrue),
				callResult("value has the instance base", "gpbft.ECChain.HasBase", `\$1\.Vote\.Value`, -1, avFalse),
				errFails("signers resolve", "gpbft.Justification.GetSigners", ""),
				callResult("strong quorum", "gpbft.IsStrongQuorum", "", -1, avFalse),
				errFails("aggregate verifies", "iface:Aggregate.VerifyAggregate", ""),
			)
			chk := func(callee string, idx int, rx, what string) {
				cs := callsTo(fn, false, callee)
				if len(cs) != 1 {
					r.Fail("C19.R1", "sim.ECInstance.validateDecision: "+what, p.c.Pos(fn.Pos()), fmt.Sprintf("expected exactly one call to %s, found %d", callee, len(cs)))
					return
				}
				got := cs[0].Arg(idx)
				r.Check(re(rx).MatchString(got), "C19.R1", "sim.ECInstance.validateDecision: "+what, p.c.InstrPos(cs[0].Instr), got, "argument is "+got)
			}
			chk("gpbft.ECChain.HasBase", 1, `^gpbft\.ECChain\.Head\(\$0\.BaseChain\)$`, "base compared with the head of the instance's base chain")
			chk("gpbft.Justification.GetSigners", 0, `^\$1$`, "signers taken from the decision")
			chk("gpbft.Justification.GetSigners", 1, `^\$0\.PowerTable$`, "signer power looked up in this instance's power table")
			chk("gpbft.IsStrongQuorum", 0, `^gpbft\.Justification\.GetSigners\(\$1, \$0\.PowerTable\)#0$`, "quorum part = signers' scaled power")
			chk("gpbft.IsStrongQuorum", 1, `^\$0\.PowerTable\.ScaledTotal$`, "quorum whole = this instance's scaled total (threshold derived from the power table)")
			chk("iface:Aggregate.VerifyAggregate", 1, `^gpbft\.Justification\.GetSigners\(\$1, \$0\.PowerTable\)#1$`, "aggregate verified for exactly the counted signers")
			chk("iface:Aggregate.VerifyAggregate", 2, `MarshalPayloadForSigning\(.*networkName, &\$1\.Vote\)$`, "aggregate verified over the decision's own payload")
			chk("iface:Aggregate.VerifyAggregate", 3, `^\$1\.Signature$`, "aggregate signature is the decision's")
		}
	}

	// ---------------- R2
	if fn := p.fn("C19.R2", "sim.ECInstance.NotifyDecision"); fn != nil {
		var rec []ssa.Instruction
		for _, fs := range fieldStores(fn, false, "simEC", "errors") {
			if strings.Contains(canon(fs.Store.Val), "append(") {
				rec = append(rec, fs.Store)
			}
		}
		if len(rec) == 0 {
			r.Fail("C19.R2", "sim.ECInstance.NotifyDecision: invalid decision recorded", p.c.Pos(fn.Pos()), "no append to simEC.errors found")
		} else {
			ok, why := mustPass(fn, errFails("", "sim.ECInstance.validateDecision", "").Match(fn), rec)
			r.Check(ok, "C19.R2", "sim.ECInstance.NotifyDecision: invalid decision recorded", p.c.InstrPos(rec[0]), "every return after a failed validation passes through the append to errors", "a failed validation can return without being recorded: "+why)
			calls := callsTo(fn, false, "sim.ECInstance.validateDecision")
			r.Check(len(calls) == 1 && calls[0].Arg(1) == "$2", "C19.R2", "sim.ECInstance.NotifyDecision: validates the reported decision", p.c.Pos(fn.Pos()), "validateDecision(decision)", "decision is not validated")
		}
	}
	if fn := p.fn("C19.R2", "sim.simEC.Err"); fn != nil {
		p.guarded("C19.R2", fn, okReturns(fn), cmpRel("no recorded errors", `^len\(\$0\.errors\)$`, `^0$`, RelGT))
	}
	if fn := p.fn("C19.R2", "sim.Simulation.Run"); fn != nil {
		errCalls := callsTo(fn, false, "sim.simEC.Err")
		r.Check(len(errCalls) > 0, "C19.R2", "sim.Simulation.Run: surfaces oracle errors", p.c.Pos(fn.Pos()), fmt.Sprintf("%d calls to simEC.Err", len(errCalls)), "Run never consults simEC.Err()")
		if len(errCalls) > 0 {
			begin := callSinks(fn, "next instance", "sim.simEC.BeginInstance")
			var inLoopBegin []Sink
			for _, b := range begin {
				if inLoop(b.Instr) {
					inLoopBegin = append(inLoopBegin, b)
				}
			}
			p.guardedAfter("C19.R2", fn, append(okReturns(fn), inLoopBegin...), errFails("oracle error-free", "sim.simEC.Err", ""))
			p.guardedAfter("C19.R2", fn, inLoopBegin, callResult("consensus reached", "sim.ECInstance.HasReachedConsensus", "", 1, avFalse))
			// errors recorded during the previous tick are surfaced before the run can be declared complete
			var errS []Sink
			for _, e := range errCalls {
				errS = append(errS, Sink{e.Instr, "oracle error check"})
			}
			p.before("C19.R2", fn, "oracle error check", errS, "completion check", callSinks(fn, "completion", "sim.ECInstance.HasCompleted"))
		}
	}
	if fn := p.fn("C19.R2", "sim.ECInstance.HasReachedConsensus"); fn != nil {
		pos := constReturns(fn, 1, "true")
		p.guardedAfter("C19.R2", fn, pos, callResult("decisions equal", "gpbft.ECChain.Eq", "", -1, avFalse))
		p.guardedAfter("C19.R2", fn, pos, canonIs("participant decided", `^\$0\.decisions\[.*\]#1$`, avFalse))
		if len(pos) > 0 {
			eqs := callsTo(fn, false, "gpbft.ECChain.Eq")
			if len(eqs) > 0 {
				p.fullRangeLoop("C19.R2", "sim.ECInstance.HasReachedConsensus: compares every participant", eqs[0].Instr, func(c string) bool {
					// exits that return (nil,false): shown above to never reach the positive return
					return strings.HasPrefix(c, "gpbft.ECChain.Eq(") || strings.HasPrefix(c, "$0.decisions[")
				})
			} else {
				r.Fail("C19.R2", "sim.ECInstance.HasReachedConsensus: compares decisions", p.c.Pos(fn.Pos()), "no Eq comparison of decisions")
			}
		}
	}
	p.onlyCalledFromAtLeast("C19.R2", "sim.simEC.NotifyDecision", "sim.simHost.ReceiveDecision")

	// ---------------- R3
	cc := p.fn("C19.R3", "certchain.CertChain.GetCommittee")
	nd := p.fn("C19.R3", "f3.gpbftInputs.GetCommittee")
	if cc != nil && nd != nil {
		// certchain: index into certificates
		var idx ssa.Value
		allValues(cc, func(v ssa.Value) {
			if ia, ok := v.(*ssa.IndexAddr); ok && strings.HasSuffix(canon(ia.X), ".certificates") {
				idx = ia.Index
			}
			if ix, ok := v.(*ssa.Index); ok && strings.HasSuffix(canon(ix.X), ".certificates") {
				idx = ix.Index
			}
		})
		var nodeArg ssa.Value
		var nodeGet CallSite
		for _, cs := range callsTo(nd, false, "certstore.Store.Get") {
			a := cs.ArgValues()[2]
			if strings.Contains(canon(a), "$2") {
				nodeArg, nodeGet = a, cs
			}
		}
		if idx == nil || nodeArg == nil {
			r.Undecided("C19.R3", "committee look-back expressions", fmt.Sprintf("could not locate certchain index (%v) / node Get argument (%v)", idx != nil, nodeArg != nil))
		} else {
			// certificate instance used by certchain = idx + Initial (AS5)
			ccInst := renameLin(linOf(idx), manifestSyms).add(Lin{T: map[string]int64{"Initial": 1}}, 1)
			ndInst := renameLin(linOf(nodeArg), manifestSyms)
			want := Lin{T: map[string]int64{"instance": 1, "Lookback": -1}}
			r.Check(ndInst.equal(want), "C19.R3", "node: committee certificate = instance − Lookback", p.c.InstrPos(nodeGet.Instr), ndInst.String(), "node uses certificate "+ndInst.String())
			r.Check(ccInst.equal(ndInst), "C19.R3", "certchain: committee certificate instance equals the node's", p.c.Pos(cc.Pos()), "certchain "+ccInst.String()+" = node "+ndInst.String(),
				"certchain derives the committee of an instance from certificate "+ccInst.String()+" but a node uses "+ndInst.String())
		}
		// bootstrap threshold
		thr := func(fn *ssa.Function) (Lin, bool) {
			var out Lin
			found := false
			allValues(fn, func(v ssa.Value) {
				b, ok := v.(*ssa.BinOp)
				if !ok || canon(b.X) != "$2" || found {
					return
				}
				// normalise to "bootstrap iff instance < T"
				y := renameLin(linOf(b.Y), manifestSyms)
				switch b.Op {
				case token.LSS, token.GEQ:
					out, found = y, true
				case token.LEQ, token.GTR:
					out, found = y.add(linConst(1), 1), true
				}
			})
			return out, found
		}
		t1, ok1 := thr(cc)
		t2, ok2 := thr(nd)
		wantT := Lin{T: map[string]int64{"Initial": 1, "Lookback": 1}}
		if !ok1 || !ok2 {
			r.Undecided("C19.R3", "bootstrap threshold", "threshold comparison not found")
		} else {
			r.Check(t1.equal(t2) && t1.equal(wantT), "C19.R3", "bootstrap window: instance < Initial + Lookback in both", p.c.Pos(cc.Pos()), t1.String(), "certchain threshold "+t1.String()+" vs node "+t2.String())
		}
		// bootstrap epoch and head-of-certificate
		epoch := func(fn *ssa.Function, rx string) (Lin, bool) {
			var out Lin
			found := false
			allValues(fn, func(v ssa.Value) {
				if b, ok := v.(*ssa.BinOp); ok && b.Op == token.SUB && re(rx).MatchString(canon(b)) && !found {
					out, found = renameLin(linOf(b), manifestSyms), true
				}
			})
			return out, found
		}
		e1, ok1 := epoch(cc, `BootstrapEpoch`)
		e2, ok2 := epoch(nd, `BootstrapEpoch`)
		wantE := Lin{T: map[string]int64{"BootstrapEpoch": 1, "Finality": -1}}
		r.Check(ok1 && ok2 && e1.equal(e2) && e1.equal(wantE), "C19.R3", "bootstrap committee epoch = BootstrapEpoch − Finality in both", p.c.Pos(cc.Pos()), e1.String(), "certchain "+e1.String()+" vs node "+e2.String())
		headCC, headND := false, false
		allValues(cc, func(v ssa.Value) {
			if strings.Contains(canon(v), "gpbft.ECChain.Head(") && strings.Contains(canon(v), ".certificates[") {
				headCC = true
			}
		})
		allValues(nd, func(v ssa.Value) {
			if nodeArg != nil && strings.Contains(canon(v), "gpbft.ECChain.Head(certstore.Store.Get(") && strings.Contains(canon(v), canon(nodeArg)) {
				headND = true
			}
		})
		r.Check(headCC && headND, "C19.R3", "both take the HEAD finalized by the look-back certificate", p.c.Pos(cc.Pos()), "Head() of the look-back certificate's chain", fmt.Sprintf("certchain uses head: %v, node uses head: %v", headCC, headND))
	}
	p.gCommitteePure("C19.R3")
	// AS5 support: the look-back list only ever receives certificates that passed every check of Validate —
	// a rejected certificate that stays in the list shifts the committee of every later instance away from the node's rule
	if va := p.fn("C19.R3", "certchain.CertChain.Validate"); va != nil {
		var apps []Sink
		for _, fs := range fieldStores(va, false, "CertChain", "certificates") {
			apps = append(apps, Sink{fs.Store, "certificate added to the look-back list"})
		}
		if len(apps) == 0 {
			r.Undecided("C19.R3", "certchain.CertChain.Validate: look-back list", "no append to certificates found")
		} else {
			p.guardedAfter("C19.R3", va, apps,
				errFails("supplemental data derivable", "certchain.CertChain.getSupplementalData", ""),
				callResult("supplemental data equal", "gpbft.SupplementalData.Eq", "", -1, avFalse),
				errFails("committee derivable", "certchain.CertChain.GetCommittee", ""),
				errFails("signature reproducible", "certchain.CertChain.sign", ""),
				callResult("signature equal", "bytes.Equal", "", -1, avFalse),
				errFails("delta applies", "certs.ApplyPowerTableDiffs", ""),
				errFails("next table CID computable", "certs.MakePowerTableCID", ""),
				union(callResult("", "github.com/ipfs/go-cid.Cid.Equals", "", -1, avFalse), cmpRel("", `\.PowerTable$`, `^certs\.MakePowerTableCID\(.*\)#0$`, RelNE)).named("delta yields the committed table"))
			// … and it is added only AFTER the checks of its own iteration (not before them)
			for _, chk := range []string{"certchain.CertChain.getSupplementalData", "gpbft.SupplementalData.Eq", "certchain.CertChain.GetCommittee", "certchain.CertChain.sign", "bytes.Equal", "certs.ApplyPowerTableDiffs", "certs.MakePowerTableCID"} {
				short := chk[strings.LastIndex(chk, ".")+1:]
				p.before("C19.R3", va, "check "+short, callSinks(va, "check "+short, chk), "look-back list append", apps)
			}
		}
	}
}

// onlyCalledFromAtLeast: the named callers must exist (others are allowed).
func (p *P) onlyCalledFromAtLeast(rule, callee string, required ...string) {
	sites := p.callersOf(callee)
	have := map[string]bool{}
	for _, cs := range sites {
		have[funcName(cs.Fn)] = true
	}
	for _, q := range required {
		p.r.Check(have[q], rule, fmt.Sprintf("%s is called from %s", callee, q), "", "call present", "expected call from "+q+" to "+callee+" is missing")
	}
}
