package main

import (
	"fmt"
	"strings"

	"golang.org/x/tools/go/ssa"
)

func init() { register("C17", c17) }

func c17(p *P) {
	r := p.r
	r.Explanation = "Static necessary conditions of faithful snapshot export/import: (R1) in the importer the latest-pointer write (the accept) and the nil return are unreachable under failure injection of each check — header decode, manifest agreement (when given), per-block decode, contiguity i == cert.Instance IN BOTH DIRECTIONS, i ≤ header.Latest, delta applies, checkpoint CID, at least one certificate, last == header.Latest (both directions), final CID; (R2) the pointer is written last and only once; certificates are stored under their own instance key with the bytes read; (R3) export: every byte goes through the hashing writer, the header binds (1, first, requested latest, table at first), certificates first … requested latest in ascending order, raw stored bytes; (R4) the importer's checkpoint writer obeys the same x % frequency rule as Put/GetPowerTable; (R5) block framing writer/reader symmetry."
	r.NotDecided = "observational identity of the imported store (model comparison); digest collision resistance; the batching datastore's flush error is dropped by the importer (observation; the property assumes working storage)."
	r.Assumptions = []string{"AS1: datastore operations are atomic and do not fail", "AS6: go/types, go/ssa and the rule tables are correct"}
	r.Rule("C17.R1", "import: pointer write / success unreachable when any check fails", 14)
	r.Rule("C17.R2", "import: pointer written last; certificates stored under their own key", 4)
	r.Rule("C17.R3", "export: hashing writer, header fields, range first…requested latest, raw bytes", 8)
	r.Rule("C17.R4", "import checkpoint writer agrees with the store's reader", 1)
	r.Rule("C17.R5", "block framing symmetric", 3)
	p.include(c04, map[string]string{"C04.R5": "C17.R6"}, map[string]string{"C17.R6": "delta application used by import rejects malformed deltas"})
	p.include(c09, map[string]string{"C09.R5": "C17.R7", "C09.R6": "C17.R7b"}, map[string]string{"C17.R7": "checkpoint writer/reader agreement (imported store serves the same power tables)", "C17.R7b": "power-table derivation"})

	writers := p.dsWriters()
	p.gImportCheckpointAfterDelta("C17.R4")
	imp := p.fn("C17.R1", "certstore.importSnapshotToDatastoreWithTestingPowerTableFrequency")
	if imp != nil {
		all := p.writeSites(imp, writers)
		ptr := relabel(filterSinks(all, `^certstore\.Store\.writeInstanceNumber\(.*certstore\.certStoreLatestKey`), "latest-pointer write (accept)")
		certW := relabel(filterSinks(all, `^iface:Datastore\.Put\(.*keyForCert\(`), "certificate write")
		if len(ptr) != 1 || len(certW) != 1 {
			r.Fail("C17.R2", "import: exactly one latest-pointer write and one certificate write site", p.c.Pos(imp.Pos()), fmt.Sprintf("found %d pointer writes and %d certificate writes — the pointer must be written once, last", len(ptr), len(certW)))
		} else {
			acc := append(append([]Sink{}, ptr...), okReturns(imp)...)
			hdrLatest := `SnapshotHeader\.LatestInstance$`
			certInst := `FinalityCertificate\.GPBFTInstance$`
			lastInst := `^phi\(.*\)\.GPBFTInstance$`
			// surplus blocks: the snapshot is accepted only after the reader reported the end of the input
			// (a loop that stops at the header's latest instance would silently ignore trailing certificates)
			eof := union(cmpRel("", `readSnapshotBlockBytes\(.*\)#1$`, `^io\.EOF$`, RelNE), callResult("", "errors.Is", `io\.EOF`, -1, avFalse))
			eof.Name = "end of input observed (no surplus block)"
			p.guarded("C17.R1", imp, acc, eof)
			p.guarded("C17.R1", imp, acc,
				errFails("header block readable", "certstore.readSnapshotBlockBytes", ""),
				errFails("header decodes", "certstore.SnapshotHeader.UnmarshalCBOR", ""),
				errFails("store opens/creates with the header's first instance and table", "certstore.OpenOrCreateStore", ""),
				canonIs("at least one certificate", `^phi\(nil\|alloc\d+:certs\.FinalityCertificate\|?↻?\)$|^phi\(alloc\d+:certs\.FinalityCertificate\|nil\)$|^phi\(nil\|↻\)$`, avNil),
				cmpRel("last certificate is the header's latest (not below)", lastInst, hdrLatest, RelLT),
				cmpRel("last certificate is the header's latest (not above)", lastInst, hdrLatest, RelGT),
			)
			// CID checks: through a helper proven below (checkPowerTable) or written inline
			// (MakePowerTableCID must succeed, and its CID must equal the certificate's commitment)
			var finalChk, loopChk []ssa.Value
			for _, cs := range callsTo(imp, false, "certstore.checkPowerTable") {
				if inLoop(cs.Instr) {
					loopChk = append(loopChk, cs.Value())
				} else {
					finalChk = append(finalChk, cs.Value())
				}
			}
			mk := func(name string, vals []ssa.Value) VM {
				return VM{Name: name, Match: func(*ssa.Function) map[ssa.Value]AV {
					out := map[ssa.Value]AV{}
					for _, v := range vals {
						out[v] = avNonNil
					}
					return out
				}}
			}
			where := func(vm VM, loop bool, name string) VM {
				return VM{Name: name, Match: func(f *ssa.Function) map[ssa.Value]AV {
					out := map[ssa.Value]AV{}
					for k, v := range vm.Match(f) {
						if in, ok := k.(ssa.Instruction); ok && inLoop(in) == loop {
							out[k] = v
						}
					}
					return out
				}}
			}
			trackedCID := `certs\.MakePowerTableCID\(certs\.PowerTableMapToArray\(`
			inlineErr := errFails("", "certs.MakePowerTableCID", trackedCID)
			inlineNE := cmpRel("", `^`+trackedCID+`.*#0$`, `SupplementalData\.PowerTable$`, RelNE)
			finalName, loopName := "final power table matches the last certificate's commitment", "checkpoint table matches the certificate's commitment"
			var finalGuards, loopGuards []VM
			if len(finalChk) > 0 {
				finalGuards = []VM{mk(finalName, finalChk)}
			} else {
				finalGuards = []VM{where(inlineErr, false, finalName+" (CID computable)"), where(inlineNE, false, finalName)}
			}
			if len(loopChk) > 0 {
				loopGuards = []VM{mk(loopName, loopChk)}
			} else {
				loopGuards = []VM{where(inlineErr, true, loopName+" (CID computable)"), where(inlineNE, true, loopName)}
			}
			p.guarded("C17.R1", imp, acc, finalGuards...)
			// manifest checks
			withM := func(v VM, name string) VM {
				u := v.with(VM{Match: func(f *ssa.Function) map[ssa.Value]AV { return map[ssa.Value]AV{f.Params[3]: avNonNil} }})
				u.Name = name
				return u
			}
			p.guarded("C17.R1", imp, acc,
				withM(cmpRel("", `^\$3\.InitialInstance$`, `SnapshotHeader\.FirstInstance$`, RelNE), "manifest initial instance = header first instance"),
				withM(union(cmpRel("", `^\$3\.InitialPowerTable$`, `^certs\.MakePowerTableCID\(.*SnapshotHeader\.InitialPowerTable\)#0$`, RelNE), callResult("", "github.com/ipfs/go-cid.Cid.Defined", "", -1, avTrue)), "manifest initial power table CID = header table CID"),
			)
			// per-block guards: once they fail, neither the block's write nor the accept is reachable
			perBlock := append(append([]Sink{}, certW...), acc...)
			idx := `^phi\(.*SnapshotHeader\.FirstInstance\|↻\)$`
			p.guardedAfter("C17.R1", imp, perBlock,
				errFails("certificate decodes", "certs.FinalityCertificate.UnmarshalCBOR", ""),
				cmpRel("no gap: block instance not above the expected one", idx, certInst, RelLT),
				cmpRel("no duplicate/reorder: block instance not below the expected one", idx, certInst, RelGT),
				cmpRel("no surplus: instance ≤ header latest", idx, hdrLatest, RelGT),
			)
			p.guardedAfter("C17.R1", imp, acc,
				errFails("delta applies", "certs.ApplyPowerTableDiffsToMap", ""),
				errFails("checkpoint stored", "certstore.Store.putPowerTable", ""),
				errFails("certificate stored", "iface:Datastore.Put", `keyForCert`),
			)
			p.guardedAfter("C17.R1", imp, acc, loopGuards...)
			// every block must be checked: the contiguity comparison dominates the certificate write
			p.guarded("C17.R1", imp, certW, cmpRel("contiguity check on every block", idx, certInst, RelLT))
			// ---- R2
			p.notAfter("C17.R2", imp, "latest-pointer write", ptr, "datastore write", all)
			p.before("C17.R2", imp, "store opened", callSinks(imp, "open", "certstore.OpenOrCreateStore"), "certificate write", certW)
			r.Check(!inLoop(ptr[0].Instr), "C17.R2", "import: pointer written once, after the loop", p.c.InstrPos(ptr[0].Instr), "outside the block loop", "pointer written inside the loop — a later failing block leaves a store that claims to be complete")
			for _, cs := range callsTo(imp, false, "certstore.Store.writeInstanceNumber") {
				r.Check(strings.HasSuffix(cs.Arg(3), "SnapshotHeader.LatestInstance"), "C17.R2", "import: pointer := header latest instance", p.c.InstrPos(cs.Instr), cs.Arg(3), "pointer set to "+cs.Arg(3))
			}
			for _, cs := range callsTo(imp, false, "iface:Datastore.Put") {
				ok := strings.Contains(cs.Arg(2), "keyForCert(") && strings.HasSuffix(cs.Arg(2), "FinalityCertificate.GPBFTInstance)") && strings.Contains(cs.Arg(3), "certstore.readSnapshotBlockBytes(")
				r.Check(ok, "C17.R2", "import: block bytes stored under the decoded certificate's instance key", p.c.InstrPos(cs.Instr), cs.Arg(2), "stored under "+cs.Arg(2)+" value "+cs.Arg(3))
			}
			for _, cs := range callsTo(imp, false, "certstore.OpenOrCreateStore") {
				r.Check(strings.HasSuffix(cs.Arg(2), "SnapshotHeader.FirstInstance") && strings.HasSuffix(cs.Arg(3), "SnapshotHeader.InitialPowerTable"), "C17.R2", "import: store created from the header's first instance and table", p.c.InstrPos(cs.Instr), cs.Arg(2), "created with "+cs.Arg(2)+", "+cs.Arg(3))
			}
			for _, cs := range callsTo(imp, false, "certs.ApplyPowerTableDiffsToMap") {
				r.Check(strings.HasSuffix(cs.Arg(1), "FinalityCertificate.PowerTableDelta]") || strings.HasSuffix(cs.Arg(1), "FinalityCertificate.PowerTableDelta"), "C17.R2", "import: tracks the power table by applying each certificate's delta", p.c.InstrPos(cs.Instr), cs.Arg(1), "applies "+cs.Arg(1))
			}
			for _, cs := range callsTo(imp, false, "certstore.checkPowerTable") {
				r.Check(strings.Contains(cs.Arg(0), "certs.PowerTableMapToArray(") && strings.HasSuffix(cs.Arg(1), "SupplementalData.PowerTable"), "C17.R2", "import: tracked table compared with the certificate's committed CID", p.c.InstrPos(cs.Instr), cs.Arg(1), "compares "+cs.Arg(0)+" with "+cs.Arg(1))
			}
		}
		p.checkpointWriter("C17.R4", imp)
	}
	if fn := p.c.Fn("certstore.checkPowerTable"); fn != nil {
		p.guarded("C17.R1", fn, okReturns(fn), errFails("CID computable", "certs.MakePowerTableCID", ""), cmpRel("CID equal", `^certs\.MakePowerTableCID\(\$0\)#0$`, `^\$1$`, RelNE))
	}

	// ---- R3 export
	if ex := p.fn("C17.R3", "certstore.Store.ExportSnapshot"); ex != nil {
		// all writes of snapshot bytes go through the hashing writer
		n := 0
		for _, cs := range callSites(ex, false) {
			c := cs.Callee()
			if c == "certstore.writeSnapshotBlockBytes" || c == "certstore.SnapshotHeader.WriteTo" || c == "certstore.writeSnapshotCborEncodedBlock" {
				n++
				idx := 0
				if c == "certstore.SnapshotHeader.WriteTo" {
					idx = 1
				}
				w := cs.ArgValues()[idx]
				isHash := strings.Contains(shortType(w.Type()), "hashWriter") || strings.Contains(canon(w), "certstore.hashWriter")
				if mi, ok := w.(*ssa.MakeInterface); ok {
					isHash = strings.Contains(shortType(mi.X.Type()), "hashWriter")
				}
				r.Check(isHash, "C17.R3", fmt.Sprintf("export: %s writes through the hashing writer", c[strings.LastIndex(c, ".")+1:]), p.c.InstrPos(cs.Instr), shortType(w.Type()), "snapshot bytes written to "+canon(w)+" bypass the digest")
			}
		}
		if n < 2 {
			r.Undecided("C17.R3", "export: writes", fmt.Sprintf("only %d snapshot writes found", n))
		}
		// raw writer parameter never written directly
		for _, cs := range callSites(ex, false) {
			if cs.Common.IsInvoke() && cs.Common.Method.Name() == "Write" && canon(cs.Common.Value) == "$3" {
				r.Fail("C17.R3", "export: no direct write to the output", p.c.InstrPos(cs.Instr), "the output writer is written directly, bypassing the digest")
			}
		}
		// header literal
		var hdr map[string]ssa.Value
		allValues(ex, func(v ssa.Value) {
			if a, ok := v.(*ssa.Alloc); ok && strings.HasSuffix(shortType(a.Type()), "certstore.SnapshotHeader") {
				hdr = structStores(a)
			}
		})
		if hdr == nil {
			r.Undecided("C17.R3", "export: header", "header literal not found")
		} else {
			want := map[string]string{"Version": "1", "FirstInstance": "$0.firstInstance", "LatestInstance": "$2", "InitialPowerTable": "certstore.Store.GetPowerTable($0, $1, $0.firstInstance)#0"}
			for f, w := range want {
				got := "<unset>"
				if hdr[f] != nil {
					got = canon(hdr[f])
				}
				r.Check(got == w, "C17.R3", "export: header."+f+" = "+w, p.c.Pos(ex.Pos()), got, "header."+f+" is "+got)
			}
		}
		gets := callsTo(ex, false, "iface:Datastore.Get")
		if len(gets) != 1 {
			r.Undecided("C17.R3", "export: certificate reads", fmt.Sprintf("expected one datastore Get, found %d", len(gets)))
		} else {
			k := gets[0].Arg(2)
			r.Check(re(`keyForCert\(\$0, phi\(\$0\.firstInstance\|↻\)\)$`).MatchString(k), "C17.R3", "export: certificates read first, first+1, …", p.c.InstrPos(gets[0].Instr), k, "reads "+k)
			h := loopHeaderOf(gets[0].Instr.Block())
			okBound := false
			var conds []string
			if h != nil {
				exits, _ := loopExits(h)
				for _, e := range exits {
					conds = append(conds, e.Cond)
					if e.Cond == "(phi($0.firstInstance|↻) <= $2)" {
						okBound = true
					}
				}
			}
			r.Check(okBound, "C17.R3", "export: range ends at the requested latest instance (inclusive)", p.c.InstrPos(gets[0].Instr), "i <= latestInstance parameter", "loop bound is "+strings.Join(conds, "; ")+" — certificates beyond (or short of) the header's latest instance are exported")
			for _, cs := range callsTo(ex, false, "certstore.writeSnapshotBlockBytes") {
				r.Check(strings.Contains(cs.Arg(1), "bytes.NewBuffer(iface:Datastore.Get("), "C17.R3", "export: raw stored bytes are written", p.c.InstrPos(cs.Instr), cs.Arg(1), "writes "+cs.Arg(1))
				p.guardedAfter("C17.R3", ex, []Sink{{cs.Instr, "block write"}}, errFails("certificate present", "iface:Datastore.Get", ""))
			}
		}
		// the digest covers exactly this export: the hasher behind the hashing writer (and behind Sum) is created by this call
		for _, fs := range fieldStores(ex, false, "hashWriter", "hasher") {
			c := canon(fs.Store.Val)
			fresh := re(`^(changetype )?golang\.org/x/crypto/blake2b\.New(256|512|384)?\(.*\)#0$`).MatchString(c) || re(`^(crypto/sha256|crypto/sha512|golang\.org/x/crypto/blake2b)\.New[0-9_]*\(.*\)(#0)?$`).MatchString(c)
			r.Check(fresh, "C17.R3", "export: the digest's hasher is created by this export call", p.c.InstrPos(fs.Store), c, "the hashing writer uses "+c+" — a hasher that outlives the call also contains the bytes of earlier exports, so the digest no longer matches the exported bytes")
		}
		for _, cs := range callsTo(ex, false, "iface:Hash.Sum") {
			c := cs.Arg(0)
			r.Check(strings.Contains(c, "blake2b.New") || strings.Contains(c, "sha256.New") || strings.Contains(c, ".hasher"), "C17.R3", "export: digest taken from the hasher that saw this export's bytes", p.c.InstrPos(cs.Instr), c, "Sum is taken from "+c)
		}
		// digest = Sum of the hasher that saw the bytes
		sums := callsTo(ex, false, "iface:Hash.Sum")
		r.Check(len(sums) == 1, "C17.R3", "export: digest taken from the hashing writer's hasher", p.c.Pos(ex.Pos()), "hasher.Sum", "digest is not taken from the hasher")
	}
	if hw := p.fn("C17.R3", "certstore.hashWriter.Write"); hw != nil {
		h := callsTo(hw, false, "iface:Hash.Write")
		w := callsTo(hw, false, "iface:Writer.Write")
		ok := len(h) == 1 && len(w) == 1 && h[0].Arg(1) == "$1" && w[0].Arg(1) == "$1" && h[0].Arg(0) == "$0.hasher" && w[0].Arg(0) == "$0.writer"
		r.Check(ok, "C17.R3", "hashWriter.Write: same bytes to the hasher and the output", p.c.Pos(hw.Pos()), "hasher.Write(p); writer.Write(p)", "hashWriter no longer feeds identical bytes to digest and output")
	}
	if el := p.fn("C17.R3", "certstore.Store.ExportLatestSnapshot"); el != nil {
		for _, cs := range callsTo(el, false, "certstore.Store.ExportSnapshot") {
			r.Check(cs.Arg(2) == "$0.latestCertificate.GPBFTInstance" && cs.Arg(3) == "$2", "C17.R3", "ExportLatestSnapshot: exports up to the latest instance", p.c.InstrPos(cs.Instr), cs.Arg(2), "exports up to "+cs.Arg(2))
		}
	}

	// ---- R5 framing
	if w := p.fn("C17.R5", "certstore.writeSnapshotBlockBytes"); w != nil {
		pu := callsTo(w, false, "encoding/binary.PutUvarint")
		ok := len(pu) == 1 && strings.Contains(pu[0].Arg(1), "bytes.Buffer.Len($1)")
		r.Check(ok, "C17.R5", "writeSnapshotBlockBytes: uvarint length prefix = payload length", p.c.Pos(w.Pos()), "PutUvarint(len(buffer))", "length prefix is not the payload length")
		wt := callsTo(w, false, "bytes.Buffer.WriteTo")
		okOrd := len(wt) == 2 && dominates(wt[0].Instr, wt[1].Instr) && strings.Contains(wt[0].Arg(0), "PutUvarint") && wt[1].Arg(0) == "$1"
		r.Check(okOrd, "C17.R5", "writeSnapshotBlockBytes: prefix then payload", p.c.Pos(w.Pos()), "prefix ≺ payload", "prefix/payload order or content changed")
	}
	if rd := p.fn("C17.R5", "certstore.readSnapshotBlockBytes"); rd != nil {
		ru := callsTo(rd, false, "encoding/binary.ReadUvarint")
		rf := callsTo(rd, false, "io.ReadFull")
		ok := len(ru) == 1 && len(rf) == 1 && strings.Contains(rf[0].Arg(1), "make([]byte,encoding/binary.ReadUvarint(") && dominates(ru[0].Instr, rf[0].Instr)
		r.Check(ok, "C17.R5", "readSnapshotBlockBytes: reads uvarint length then exactly that many bytes", p.c.Pos(rd.Pos()), "ReadUvarint ≺ ReadFull(make(n))", "reader framing does not mirror the writer")
		p.guarded("C17.R5", rd, okReturns(rd), errFails("length readable", "encoding/binary.ReadUvarint", ""), errFails("payload complete", "io.ReadFull", ""))
	}
}
