package main

import (
	"fmt"
	"strings"

	"golang.org/x/tools/go/ssa"
)

// Rules added for the last batch of the third seeding round.

// gProposalIsCandidate: whenever tryCommit adopts a COMMITted value as its proposal, that value is (made) a candidate —
// a proposal outside the candidate set is filtered out by the participant's own CONVERGE filter and it never advances.
func (p *P) gProposalIsCandidate(rule string) {
	r := p.r
	tc := p.fn(rule, inst+"tryCommit")
	if tc == nil {
		return
	}
	var props []*ssa.Store
	for _, fs := range fieldStores(tc, false, "instance", "proposal") {
		props = append(props, fs.Store)
	}
	adds := callSinks(tc, "candidate added", inst+"addCandidate")
	if len(props) == 0 {
		r.Undecided(rule, inst+"tryCommit: sway adds the adopted value as a candidate", "no proposal store in tryCommit")
		return
	}
	if len(adds) == 0 {
		r.Fail(rule, inst+"tryCommit: sway adds the adopted value as a candidate", p.c.InstrPos(props[0]), "the proposal is replaced by a COMMITted value that is never added to the candidate set — the participant's own CONVERGE filter then rejects its proposal in every later round")
		return
	}
	// under "not yet a candidate", every path to the proposal store passes addCandidate for the same value
	inj := callResult("", inst+"isCandidate", "", -1, avFalse).all(tc)
	s := RunSCCP(tc, inj)
	var via []ssa.Instruction
	for _, a := range adds {
		via = append(via, a.Instr)
	}
	bad := ""
	for _, st := range props {
		if !s.Reachable(st) {
			continue
		}
		if okm, _ := mustPassTo(tc, s, via, st); !okm {
			bad = "proposal store at " + p.c.InstrPos(st) + " reachable without addCandidate although the value is not a candidate"
		}
	}
	for _, cs := range callsTo(tc, false, inst+"addCandidate") {
		ok := false
		for _, st := range props {
			if canon(st.Val) == cs.Arg(1) {
				ok = true
			}
		}
		if !ok {
			bad = "addCandidate(" + cs.Arg(1) + ") is not the adopted value"
		}
	}
	r.Check(bad == "", rule, inst+"tryCommit: sway adds the adopted value as a candidate", p.c.InstrPos(props[0]), "addCandidate(v) on every path to proposal := v when v is not a candidate", bad)
}

// gCopiesAreDeep: PowerTable.Copy clones its slices and map; AllPrefixes hands out capacity-limited prefixes
// (an Append on a shorter prefix must not overwrite the tipsets of the longer ones whose key is already cached).
func (p *P) gCopiesAreDeep(rule string, which string) {
	r := p.r
	if which == "powertable" {
		if fn := p.fn(rule, "gpbft.PowerTable.Copy"); fn != nil {
			for _, f := range []struct{ field, want string }{{"Entries", "slices.Clone"}, {"ScaledPower", "slices.Clone"}, {"Lookup", "maps.Clone"}} {
				sts := fieldStores(fn, false, "PowerTable", f.field)
				ok := len(sts) > 0
				got := ""
				for _, fs := range sts {
					got = canon(fs.Store.Val)
					if !(strings.HasPrefix(got, f.want) || strings.HasPrefix(got, "append(") && strings.Contains(got, "nil") || strings.HasPrefix(got, "make(")) {
						ok = false
					}
				}
				r.Check(ok, rule, "gpbft.PowerTable.Copy: "+f.field+" is cloned", p.c.Pos(fn.Pos()), got, f.field+" of the copy is "+got+" — the copy shares storage with the original, so Add/rescale on one corrupts the scaled powers of the other")
			}
		}
		return
	}
	if fn := p.fn(rule, "gpbft.ECChain.AllPrefixes"); fn != nil {
		n := 0
		for _, in := range instrsOf(fn) {
			sl, ok := in.(*ssa.Slice)
			if !ok || !strings.HasSuffix(canon(sl.X), ".TipSets") {
				continue
			}
			n++
			ok2 := sl.Max != nil && sl.High != nil && canon(sl.Max) == canon(sl.High)
			r.Check(ok2, rule, "gpbft.ECChain.AllPrefixes: prefixes are capacity-limited slices", p.c.InstrPos(sl), "TipSets[:i+1:i+1]", "a prefix shares spare capacity with the longer prefixes — Append on it overwrites their tipsets while their cached keys stay")
		}
		if n == 0 {
			r.Undecided(rule, "gpbft.ECChain.AllPrefixes: prefixes are capacity-limited slices", "no slicing of TipSets found")
		}
	}
}

// gCreateOnlyMarker: CreateStore decides "already initialized" on the first-instance marker alone, so that a creation
// interrupted between its two writes can be repeated.
func (p *P) gCreateOnlyMarker(rule string) {
	r := p.r
	fn := p.fn(rule, "certstore.CreateStore")
	if fn == nil {
		return
	}
	n := 0
	for _, cs := range callSites(fn, false) {
		c := cs.Callee()
		if c == "iface:Datastore.Has" || c == "iface:Datastore.Get" || c == "iface:Read.Has" || c == "iface:Read.Get" || c == "certstore.Store.readPowerTable" {
			n++
			r.Fail(rule, "certstore.CreateStore: existence decided by the first-instance marker only", p.c.InstrPos(cs.Instr), "CreateStore also consults "+c+"("+cs.Arg(2)+") — a creation interrupted after the initial table write can then never be repeated")
		}
	}
	rd := callsTo(fn, false, "certstore.Store.readInstanceNumber")
	ok := len(rd) == 1 && strings.HasSuffix(rd[0].Arg(2), "certStoreFirstKey")
	if n == 0 {
		r.Check(ok, rule, "certstore.CreateStore: existence decided by the first-instance marker only", p.c.Pos(fn.Pos()), "readInstanceNumber(certStoreFirstKey)", fmt.Sprintf("%d marker reads", len(rd)))
	}
}

// gAppendBufferFresh: the buffer an entry is marshalled into is local to the Append call (a shared buffer keeps the
// partial bytes of a failed marshal and prefixes them to the next acknowledged entry).
func (p *P) gAppendBufferFresh(rule string) {
	r := p.r
	fn := p.fn(rule, "internal/writeaheadlog.WriteAheadLog.Append")
	if fn == nil {
		return
	}
	n := 0
	for _, cs := range callSites(fn, false) {
		if !strings.HasSuffix(cs.Callee(), ".MarshalCBOR") {
			continue
		}
		n++
		w := cs.ArgValues()[len(cs.ArgValues())-1]
		if mi, ok := w.(*ssa.MakeInterface); ok {
			w = mi.X
		}
		_, isLocal := w.(*ssa.Alloc)
		r.Check(isLocal, rule, "WriteAheadLog.Append: the entry is marshalled into a buffer local to the call", p.c.InstrPos(cs.Instr), canon(w), "marshals into "+canon(w)+" — bytes left by a failed marshal would precede the next acknowledged entry and make the rest of the file unreadable")
	}
	if n == 0 {
		r.Undecided(rule, "WriteAheadLog.Append: the entry is marshalled into a buffer local to the call", "no MarshalCBOR call found")
	}
}

// gCompletionOrder: both completion paths of a partial message install the discovered chain BEFORE inferring the
// justification's value from it.
func (p *P) gCompletionOrder(rule string) {
	r := p.r
	n := 0
	for _, f := range p.c.ProdFuncs() {
		if !strings.HasPrefix(funcName(f), "pmsg.") {
			continue
		}
		for _, cs := range callsTo(f, false, "pmsg.inferJustificationVoteValue") {
			n++
			arg := cs.Arg(0)
			ok := false
			for _, in := range instrsOf(cs.Fn) {
				st, isSt := in.(*ssa.Store)
				if !isSt {
					continue
				}
				c := canon(st.Addr)
				if strings.HasSuffix(c, ".Vote.Value") && strings.Contains(c, strings.TrimPrefix(arg, "&")) && dominates(st, cs.Instr) {
					ok = true
				}
			}
			r.Check(ok, rule, funcName(cs.Fn)+": chain installed in the vote before the justification value is inferred", p.c.InstrPos(cs.Instr), "Vote.Value := chain ≺ inferJustificationVoteValue", "the justification's value is inferred before the discovered chain is written into the vote — buffered messages complete with a bottom justification value and fail full validation")
		}
	}
	if n < 2 {
		r.Undecided(rule, "pmsg: completion sites", fmt.Sprintf("expected two inferJustificationVoteValue call sites, found %d", n))
	}
}

// gSignedBytesFresh: the byte slices handed to the signer are freshly allocated — never views of a pooled or shared buffer
// that a later serialisation rewrites before the signature is made.
func (p *P) gSignedBytesFresh(rule string) {
	r := p.r
	for _, name := range []string{"gpbft.vrfSerializeSigInput", "gpbft.Payload.MarshalForSigningWithValueKey", "gpbft.TipSet.MarshalForSigning"} {
		fn := p.fn(rule, name)
		if fn == nil {
			continue
		}
		bad := ""
		for _, cs := range callSites(fn, false) {
			c := cs.Callee()
			if strings.HasPrefix(c, "sync.Pool.") {
				bad = "uses a pooled buffer (" + c + ")"
			}
		}
		for _, in := range instrsOf(fn) {
			if u, ok := in.(*ssa.UnOp); ok {
				if g, ok := u.X.(*ssa.Global); ok && strings.Contains(shortType(g.Type()), "bytes.Buffer") {
					bad = "writes into the package-level buffer " + g.Name()
				}
			}
		}
		r.Check(bad == "", rule, name+": returns freshly allocated bytes", p.c.Pos(fn.Pos()), "no pooled/shared buffer", name+" "+bad+" — the bytes prepared for signing alias storage that the next serialisation overwrites")
	}
}

// gCommitteePure: certchain's committee of an instance is recomputed from the certificate list on every call
// (a memo that survives Generate would serve committees of a previous chain).
func (p *P) gCommitteePure(rule string) {
	r := p.r
	fn := p.fn(rule, "certchain.CertChain.GetCommittee")
	if fn == nil {
		return
	}
	n := 0
	for _, in := range instrsOf(fn) {
		switch x := in.(type) {
		case *ssa.MapUpdate:
			if strings.HasPrefix(canon(x.Map), "$0.") {
				n++
			}
		case *ssa.Store:
			if strings.HasPrefix(canon(x.Addr), "&$0.") {
				n++
			}
		}
	}
	r.Check(n == 0, rule, "certchain.CertChain.GetCommittee: a function of the certificate list only (no memo on the generator)", p.c.Pos(fn.Pos()), "no write to the receiver", fmt.Sprintf("%d writes to the generator's state — a cached committee outlives the certificate list it was derived from", n))
}

// gCommitteeAggregateKeys: the committee's aggregate verifier is built over the key list of the SORTED table the
// committee carries (signer indices in justifications and certificates refer to that order).
func (p *P) gCommitteeAggregateKeys(rule string) {
	r := p.r
	fn := p.fn(rule, "f3.gpbftInputs.GetCommittee")
	if fn == nil {
		return
	}
	ag := callsTo(fn, false, "iface:Verifier.Aggregate")
	if len(ag) != 1 {
		r.Undecided(rule, "GetCommittee: aggregate verifier keys", fmt.Sprintf("expected one Aggregate call, found %d", len(ag)))
		return
	}
	arg := ag[0].Arg(1)
	tbl := ""
	for _, fs := range fieldStores(fn, false, "Committee", "PowerTable") {
		tbl = canon(fs.Store.Val)
	}
	ok := tbl != "" && arg == "gpbft.PowerEntries.PublicKeys("+tbl+".Entries)"
	r.Check(ok, rule, "GetCommittee: aggregate verifier built over the keys of the committee's own (sorted) power table", p.c.InstrPos(ag[0].Instr), arg, "aggregate keys are "+arg+" but the committee's table is "+tbl+" — signer indices would select the wrong public keys whenever the source order differs from the canonical order")
}
