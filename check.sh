#!/bin/bash
# check.sh <property-id> [quick|thorough]
# Static check of one property against /repo's current working tree.
# Rebuilds nothing from /repo (no code of /repo is executed): the checker
# type-checks /repo's current source and analyses its SSA form on every run.
set -u
cd "$(dirname "$0")"
PROP="$1"; TIER="${2:-${VERIF_TIER:-quick}}"
export GOFLAGS=-mod=mod GOPROXY=off GOWORK=off
unset GOSUMDB GOTOOLCHAIN
if [ ! -x bin/f3lint ] || [ -n "$(find checker -newer bin/f3lint -name '*.go' -print -quit 2>/dev/null)" ]; then
  ./setup.sh >/dev/null 2>&1 || { echo "setup failed"; ./setup.sh; exit 2; }
fi
exec bin/f3lint -prop "$PROP" -tier "$TIER" -repo /repo -verif "$(pwd)"
