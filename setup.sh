#!/bin/bash
# Builds the checker from files on disk only (offline).
set -e
cd "$(dirname "$0")"
export GOFLAGS=-mod=mod GOPROXY=off GOWORK=off
unset GOSUMDB
mkdir -p bin evidence
(cd checker && GOTOOLCHAIN=local go1.26.8 build -o ../bin/f3lint .)
# warm the export-data cache of /repo's dependencies so that quick checks load in seconds
(cd /repo && unset GOTOOLCHAIN && go build ./... >/dev/null 2>&1 || true)
echo "f3lint built"
